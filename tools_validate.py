#!/usr/bin/env python3-vt
"""Validate MANIFEST.json and evidence/*.json against the schemas (dev helper)."""
import json, glob, sys, jsonschema
ok = True
try:
    jsonschema.validate(json.load(open('/verif/MANIFEST.json')), json.load(open('/root/.vp/MANIFEST.schema.json')))
    print("MANIFEST ok")
except Exception as e:
    ok = False; print("MANIFEST INVALID", str(e)[:300])
sch = json.load(open('/root/.vp/EVIDENCE.schema.json'))
for f in sorted(glob.glob('/verif/evidence/*.json')):
    try:
        jsonschema.validate(json.load(open(f)), sch); print(f, "ok")
    except Exception as e:
        ok = False; print(f, "INVALID", str(e)[:300])
sys.exit(0 if ok else 1)
