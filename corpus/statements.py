# Every statement form of the Python 3.11 grammar.
import a
import a.b.c, d as e, f.g as h
from a import b
from a.b import (c, d as e,)
from . import x
from .. import y as z
from ...pkg.mod import *
from .mod import name
from __future__ import annotations

x = 1
x = y = z = 2
a, b = b, a
(a, b), [c, *d] = (1, 2), [3, 4, 5]
*first, last = items
x: int
x: int = 3
obj.attr: "str" = 'v'
arr[0]: list[int] = []
(paren): int = 1
x += 1; x -= 1; x *= 2; x /= 2; x //= 2; x %= 2; x @= m; x &= 1; x |= 1; x ^= 1; x >>= 1; x <<= 1; x **= 2
obj.attr += 1
arr[i, j] |= mask
del x
del a, b
del obj.attr, arr[0], arr[1:2]
del (p, q), [r]
pass
assert x
assert x, "message"
global g1, g2


def plain(): pass


def returns():
    return
    return 1
    return 1, 2
    return *a, b


def gen():
    yield
    yield 1
    yield 1, 2
    x = yield
    y = yield from other()
    yield from other()
    await thing
    nonlocal_holder = 1

    def inner():
        nonlocal nonlocal_holder
        nonlocal_holder += 1


async def coro(a, /, b, *, c=1, **kw) -> None:
    await a
    async for i in aiter():
        pass
    else:
        pass
    async with ctx() as c, other():
        pass
    result = [i async for i in aiter() if await pred(i)]
    return await b


@decorator
@decorator.attr(arg, kw=1)
@(lambda f: f)
def decorated(a: int = 1, *args: str, b: "B", c=2, **kwargs: dict) -> "R":
    """docstring"""


class Empty: pass


class Base(object): x = 1


@dataclass
class Derived(Base, Mixin, metaclass=Meta, **opts):
    """doc"""
    attr: int = 0

    def method(self):
        return super().method()


class StarBases(*bases, **kw): ...


if a:
    pass
if a: pass
elif b: pass
else: pass
if a:
    pass
elif b:
    pass
elif c:
    pass
else:
    if nested:
        pass
    else:
        pass

while cond:
    break
else:
    pass
while True:
    continue

for i in range(10):
    pass
for i, (j, k) in enumerate(pairs):
    continue
else:
    pass
for x in 1, 2, 3: pass
for x in *a, b: pass
for obj.attr in seq: pass
for arr[0] in seq: pass

try:
    pass
except:
    pass
try:
    pass
except E:
    pass
except (A, B) as e:
    raise
except C as e:
    raise X
else:
    pass
finally:
    pass
try:
    pass
finally:
    pass
try:
    pass
except* ValueError:
    pass
except* (TypeError, KeyError) as eg:
    raise Y from eg
try: pass
except E: pass
else: pass

raise
raise E
raise E("x") from None
raise E from cause

with a: pass
with a as b: pass
with a, b as c, d: pass
with (a, b): pass
with (a as b, c as d): pass
with (a as b, c as d,): pass
with (a): pass
with (a, b) as t: pass
with open(f) as (x, y): pass
with open(f) as obj.attr, open(g) as arr[0]: pass
with (yield): pass
with a as b, \
     c as d:
    pass

lambda: 0
x; y; z
x;
"expression statement"
...

# empty sequence displays as targets (store / del context with nothing inside)
() = x
[] = x
a, () = x
a, [] = x, y
((), []) = x
[[], ()] = x
del ()
del []
del (), [], a
del ((), [])
for () in x: pass
for [] in x: pass
for a, () in x: pass
with a as (): pass
with a as [], b as (c, ()): pass
[1 for () in x]
{1: 2 for [] in x}
(1 for a, () in x)
async def empty_targets():
    async for () in x: pass
    async with a as []: pass
    [1 async for () in x]

# every kind of atom / expression in with-item position (the grammar has a separate family of productions for it)
with () as a: pass
with (): pass
with [] as a, {} as b, {1} as c, {1: 2} as d: pass
with [x for x in y] as a, {x for x in y} as b, {k: v for k, v in y} as c, (x for x in y) as d: pass
with [x for x in y], {x for x in y}, {k: v for k, v in y}, (x for x in y): pass
with (a, b) as c: pass
with (a, b,) as c: pass
with (a), (b): pass
with (a) as b, (c) as d: pass
with ((a, b)) as c, ([d]) as e: pass
with 1 as a, 'x' as b, f'{x}' as c, ... as d, None as e, True as f, 1.5 as g, 2j as h, b'y' as i: pass
with (a := b) as c: pass
with a.b as c, a[0] as d, a() as e, -a as f, not a as g, a + b as h, a < b as i, a and b as j, (a if b else c) as k: pass
with a if b else c as d: pass
with a ** b as c, a | b as d, a @ b as e, ~a as f, a or b as g, a[b:c] as h, a(b)(c).d as i: pass
with (*a, b) as c: pass
with {**a} as b, {*a} as c, [*a] as d: pass
with (lambda: 0) as a, (lambda x: x)(1) as b: pass
with 'a' 'b' as c, f'{x}' 'y' as d: pass
def with_yield():
    with (yield) as a, (yield b) as c: pass
    with (yield from a) as b: pass
async def with_await():
    with await a as b, await c: pass
    async with await a as b, (await c) as d: pass

# single targets wrapped in redundant parentheses
for (tx) in y: pass
for ((ta, tb)) in y: pass
for (tx.y) in z: pass
for (tx[0]) in z: pass
[1 for (cx) in y]
{1 for ((ca, cb)) in y}
(px) = 1
(px), (py) = 1, 2
((px)) = ((1))
(px.a) = (px[0]) = 2
del (px)
del (px), (py.a)
with a as (wb): pass
with a as (wb), c as (wd.e): pass
async def paren_targets():
    async for (ax) in y: pass
    async with a as (ab): pass
    [1 async for (ax) in y]
with []: pass
with [] as we: pass
with [], () as wf, {} as wg: pass
with [].x as wh, [][0] as wi: pass
with [] + [] as wj: pass
with {k: v for k in wk}: pass
with {k: v for k in wk} as wl, {k for k in wk} as wm: pass
with [k for k in wk], (k for k in wk) as wn: pass
with {1: 2}, {1, 2} as wo, {**wp}, {*wq}: pass
with (yield) as wr: pass
with (wa := 1) as ws: pass
with 1 as wt, 1.5 as wu, 'a' 'b' as wv, f'{wk}' as ww, ... as wx, None as wy, True as wz: pass
with -wa, +wb, ~wc, not wd, wa ** wb, await_ as we: pass
with wa if wb else wc, lambda: wd, wa or wb, wa and wb, wa < wb, wa | wb: pass
with wa.b.c(), wa[0][1:2], wa(*wb, **wc).d: pass
with (wa := f(),): pass
with (wa,): pass
with (wa,) as wt: pass
with (wa := 1): pass
with (wa := 1) as wt, (wb := 2,) as wu: pass
with (*wa,): pass
with (wa, wb := 1,): pass
with (wa), (wb,), ((wc,)), (wd := 1,): pass
with ((wa := 1,)): pass
with (wa := 1,), wb: pass
