# Soft keywords used as ordinary names in every position.
match = 1
case = 2
type = 3
match, case = case, match
print(match, case, type)
match.attr = 1
match[0] = 1
match(1)
match(1, 2).attr
match (x)
match [x]
match -x
match +x
match *x
match .attr
match |= 1
match += 1
match: int = 1
case: int
type: type = type
match if case else type
match and case or type
match is case
match in case
match not in case
match == case
match < case > type
match @ case
match ** case
match // case
match % case
match.case.type
match.match.match
case(match)
case[match]
case.match
type(x)
type[x]
type.x
type = type(type)
type (x)
type [x]
type -x
type *x
x = match
x = [match, case, type]
x = {match: case}
x = (match for match in case if type)
x = lambda match, case=1, *type: match
f(match=1, case=2, type=3)
f(match, *case, **type)
del match, case, type
for match in case: pass
for case in match: type
while match: case
if match: pass
elif case: pass
with match as case: pass
with type: pass
import match
import case as type
from match import case
from type import match as case
def match(case, type=1): return match
def case(): pass
def type(): pass
class match: pass
class case(match): pass
class type(type): type = type
async def f(): await match
assert match, case
raise match from case
return_ = match
global match
try: pass
except match as case: pass
lambda: match
match; case; type
match
case
type
print(match)
[match]
(match)
{match}
-match
not match
match,
match, case
*match, case = x
match = case = type = 0
match \
    = 1
match(
    x
)
match[
    x
]
class C:
    match = 1
    case = 2
    type = 3
    def match(self): return self.match
    def type(self, type): return type
def f():
    match = 1
    return match
match x:
    case match: pass
match match:
    case case: pass
match case:
    case type: pass
match type:
    case match.case: pass
    case type(): pass
    case match(case=type): pass
match (match):
    case (case): pass
match x:
    case _:
        match = 1
        case = 2
        type = 3
        match(case)
        case(match)
match {match: case}:
    case {"k": match}: pass
match [match, case]:
    case [match, case]: pass
match match(case), type:
    case _: pass
match x:
    case {**match}: pass
    case [*case]: pass
    case C(match=case): pass
    case x as match: pass
    case x as type: pass
if x: match = 1
if x: case(y)
for i in x: type = i
match = lambda: case
match = {case: type}
match = [case for case in type]
x = match if match else match
match = f'{match}{case!r}{type:>{match}}'
