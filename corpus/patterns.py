# Every match-statement pattern form.
match x:
    case 0: pass
    case -1: pass
    case 1.5 | -2.5: pass
    case 1j | -1j | 1+2j | 1-2j | -1+2j | -1-2.5j: pass
    case "s": pass
    case "a" "b": pass
    case b"bytes": pass
    case None: pass
    case True | False: pass
    case x.y: pass
    case x.y.z: pass
    case _: pass
match x:
    case name: pass
match x:
    case (name): pass
match x:
    case [a, b]: pass
    case [a, b,]: pass
    case [a]: pass
    case []: pass
    case (): pass
    case (a,): pass
    case (a, b): pass
    case [a, *rest]: pass
    case [*rest, a]: pass
    case [a, *_, b]: pass
    case (*rest,): pass
    case [*_]: pass
    case a, b: pass
    case a, *b: pass
    case a,: pass
    case *a,: pass
match x:
    case {}: pass
    case {"k": v}: pass
    case {"k": v, "j": w}: pass
    case {"k": v,}: pass
    case {1: a, -1: b, 1.5: c, None: d, True: e, b"b": f, x.y: g, 1+2j: h}: pass
    case {**rest}: pass
    case {"k": v, **rest}: pass
    case {"k": {"n": [a, b]}}: pass
match x:
    case C(): pass
    case C(a): pass
    case C(a, b): pass
    case C(a,): pass
    case C(k=v): pass
    case C(k=v,): pass
    case C(a, k=v, j=w): pass
    case a.b.C(x, y=z): pass
    case C(D(a), k=E(b=c)): pass
match x:
    case a | b: pass
match x:
    case 1 | 2 | 3: pass
    case (1 | 2): pass
    case [1 | 2, 3 | 4]: pass
    case C(1 | 2): pass
    case {"k": 1 | 2}: pass
    case a as b: pass
match x:
    case 1 as one: pass
    case (1 | 2) as n: pass
    case 1 | 2 as n: pass
    case [a, b] as pair: pass
    case [a as b, c as d]: pass
    case C(a as b, k=c as d): pass
    case {"k": v as w}: pass
    case (a as b): pass
match x:
    case 1 if cond: pass
    case [a, b] if a > b: pass
    case _ if (y := x): pass
match x, y:
    case 1, 2: pass
match x,:
    case 1,: pass
match (x, y):
    case (1, 2): pass
match *a, b:
    case _: pass
match x := y:
    case _: pass
match f(a, b)[0].c:
    case _: pass
match [a, b]:
    case _: pass
match {a: b}:
    case _: pass
match -x:
    case _: pass
match not x:
    case _: pass
match lambda: x:
    case _: pass
match x if y else z:
    case _: pass
match await x:
    case _: pass
match x:
    case _:
        match y:
            case _:
                pass
match x:
    case 1: a; b
    case 2:
        c

        d
match(x):
    case(1): pass
    case(1, 2): pass
    case[1, 2]: pass
    case{"k": 1}: pass
match (yield):
    case _: pass
match x:
    case -0: pass
    case 0x10 | 0o7 | 0b1 | 1_0: pass
    case 'a' 'b' "c": pass
    case f.g(): pass
match x:
    case {False: a}: pass
    case {True: a, None: b, False: c}: pass
    case {None: a, **rest}: pass
    case {-1: a, 1.5: b, 'k': c, b'k': d, 1+2j: e, X.y: f}: pass
