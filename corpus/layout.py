# Layout: comments, blank lines, continuations, tabs, form feeds, deep indentation.

x = 1  # trailing comment
# comment line
    # indented comment line

	
   
if x:
	y = 1
	if y:
		z = 2
	# dedented comment
		# over-indented comment
	w = 3

def f(a,  # c1
      b,

      c=1,
      ):
    return (a +
            b  # c2
            + c
    )

x = 1 + \
    2 + \
3
if a and \
   b:
    pass
d = {
    "k": 1,

    # comment in dict
    "j": [
        1, 2,
        3,
    ],
}
class C:

    def m(self):

        pass


    x = 1

for i in x:
        a = 1
        if a:
                b = 2
        else:
                c = 3
while 1:
  if 2:
   if 3:
    if 4:
     if 5:
      if 6:
       if 7:
        if 8:
         if 9:
          deep = 1
  shallow = 2
try:
    pass
# comment between clauses
except E:
    pass

# comment before else
else:
    pass
x = (  # open
    1
)  # close
y = [
]
z = (

)
foo(a)(
    b
)[
    c
]
x = 1;y = 2;   z = 3 ;
if x:pass
lambda:0
x=y=z
x=-1
x = a if b else\
    c
assert (
    x
), "m"
with (
    a as b,
    c as d,
):
    pass
from m import (
    a,  # one
    b as c,
)
x = "a" \
    "b"
x = ("a"  # c
     "b")
def g(): return 1  # c
@dec  # c
# between decorator and def
def h():  # c
    # only comment first
    pass  # c
    # trailing comment in body
# eof comment without newline