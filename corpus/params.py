# Parameter-list shapes and call shapes.
def f(): pass
def f(a): pass
def f(a,): pass
def f(a, b): pass
def f(a=1): pass
def f(a, b=1): pass
def f(a=1, b=2): pass
def f(*a): pass
def f(**k): pass
def f(**k,): pass
def f(a, *b): pass
def f(a, **k): pass
def f(a, *b, **k): pass
def f(*, a): pass
def f(*, a=1): pass
def f(*, a, b=1, c): pass
def f(*, a=1, b): pass
def f(*a, b): pass
def f(*a, b=1, c, **k): pass
def f(a, /): pass
def f(a, /,): pass
def f(a, /, b): pass
def f(a=1, /, b=2): pass
def f(a, b=1, /, c=2, *, d, e=3, g): pass
def f(a, b, /, c, d, *e, f, g, **h): pass
def f(a, /, *, b): pass
def f(a, /, *b): pass
def f(a, /, **k): pass
def f(a: int): pass
def f(a: int = 1): pass
def f(a: int, /, b: str = "s", *c: float, d: "D", e: E = None, **f: dict) -> Ret: pass
def f(*a: *Ts): pass
def f(a=(1, 2), b=[x for x in y], c=lambda: 0, d={}, e=-1, f=not x, g=a if b else c): pass
def f(a, b): return a
async def f(a, /, b, *, c): pass
lambda: 0
lambda a: 0
lambda a,: 0
lambda a, b: 0
lambda a=1: 0
lambda a, b=1: 0
lambda *a: 0
lambda **k: 0
lambda a, *b, **k: 0
lambda *, a: 0
lambda *, a=1, b: 0
lambda *a, b=1, c: 0
lambda a, /: 0
lambda a, /, b: 0
lambda a, b=1, /, c=2, *, d, e=3, g: 0
lambda a, /, *, b: 0
lambda a=lambda b=1: b: a
f(a)(b=1)(*c)(**d)
f(a, b, c=1, d=2)
f(a, *b, c, *d, e=1, *f, **g, h=2, **i)
f(*a, *b)
f(**a, **b)
f(a for a in b)
f(a, b, (c for c in d))
f(a := 1)
f(a=(b := 1))
f(a,
  b,
  )
f(
)
class C(): pass
class C(A): pass
class C(A, B): pass
class C(A, B,): pass
class C(metaclass=M): pass
class C(A, metaclass=M, **kw): pass
class C(*bases): pass
class C(*bases, **kw): pass
class C(A, *bases, k=1): pass
