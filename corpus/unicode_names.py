# Non-ASCII identifiers and multi-byte text before constructs.
é = 1
日本語 = "名前"
Ünïcödé = é + 日本語
def fün(ä, ö=é, *ärgs, ü: "ß" = 'ß', **kwärgs) -> "Ω": return ä.ö.ü
class Клас(База, мета=Тип): атрибут = 1
x = {"ключ": значение, 'κλειδί': τιμή}
for и in диапазон: pass
лямбда = lambda α, β=γ: α + β
f"é{é}日本{日本語!r:>{ширина}}𝄞"
"𝄞" + x; '日本' in y; b"ascii" + z
import пакет.модуль as псевдоним
from пакет import имя as другое
with контекст as значение: pass
try: pass
except Ошибка as е: pass
match значение:
    case Класс(поле=образец) as имя: pass
    case {"ключ": значение, **остаток}: pass
x = [é for é in ö if ü]
global глобальная
del é, ö.ü, ä[ß]
assert é, "сообщение"
𝐱 = 1 if False else 0
