# Every expression form and operator.
a + b; a - b; a * b; a / b; a // b; a % b; a @ b; a ** b
a << b; a >> b; a & b; a | b; a ^ b
-a; +a; ~a; not a
- - a; ~ -a; not not a; -a ** b; (-a) ** b; a ** -b; a ** b ** c; (a ** b) ** c
a + b * c; (a + b) * c; a - b - c; a - (b - c); a / b * c; a * (b / c)
a < b; a > b; a == b; a != b; a <= b; a >= b; a is b; a is not b; a in b; a not in b
a < b < c; a == b != c is d is not e in f not in g
(a < b) < c; a < (b < c)
a and b; a or b; a and b and c; a or b or c; a and b or c and d; (a or b) and (c or d)
not a and b; not (a and b); not a == b
a if b else c; a if b else c if d else e; (a if b else c) if d else e; a if (b if c else d) else e
lambda: 1; lambda x: x; lambda x, y=1, *a, z, w=2, **k: (x, y); lambda *, k: k; lambda x, /: x; lambda x, /, y, *, z: 0
lambda *a: a; lambda **k: k; lambda x=lambda: 1: x
(y := 1); [y := 1, y ** 2]; f(y := 2); {(k := 1): k}
x[(i := 0)]; x[i := 0]; print(a := 1, b := 2)
await x
await x ** 2; -await x; await x.y(); (await x).y
f(); f(a); f(a, b); f(a,); f(*a); f(**k); f(a, *b, c, *d); f(a, k=1); f(k=1, *a); f(k=1, **d, j=2); f(*a, k=1, **d)
f(x for x in y); f(a, (x for x in y)); f((x for x in y), a)
f(a)(b)(c); f.g.h; f.g(); f().g; f[0]; f[0][1]; f[0].g(1)[2]
x[a]; x[a, b]; x[a,]; x[a:b]; x[a:b:c]; x[:]; x[::]; x[a:]; x[:b]; x[::c]; x[a::c]; x[:b:c]; x[a:b, c:d]; x[..., None]
x[*a]; x[*a, b]; x[a, *b]; x[*a, *b]
x[a:b, *c]
x.real; x.__class__.__name__; (1).real; 1 .real; 1.0.real; 1..real; 1j.imag
(); (a,); (a, b); (a, b,); ((a, b), c); (a); ((a))
[]; [a]; [a, b]; [a, b,]; [[a], [b]]; [*a]; [*a, b, *c]
{a}; {a, b}; {a, b,}; {*a}; {*a, b}
{}; {a: b}; {a: b, c: d}; {a: b,}; {**a}; {**a, b: c}; {a: b, **c, d: e}; {a: {b: c}}
[x for x in y]; [x for x in y if z]; [x for x in y if z if w]; [x for x in y for z in w]; [(x, z) for x in y if a for z in w if b]
[x for x, in y]; [x for x, y in z]; [x for (x, y) in z]; [x for [x, y] in z]; [x for x.a in z]; [x for x[0] in z]
[x async for x in y]; [await x for x in y]
{x for x in y}; {x: y for x, y in z}; {x: y for x in a for y in b if c}
(x for x in y); (x for x in y if z); ((x, y) for x in a for y in b)
[x for x in (y if a else b)]; [x for x in y if (lambda: z)()]; [x if a else b for x in y]
[x := 1 for _ in y] if False else [(x := 1) for _ in y]
(yield); (yield x); (yield x, y); (yield from x)
*a, b
a, *b
*a,
a,
a, b
None; True; False; ...; __debug__
x if y else lambda: z
(lambda: x) if y else z
a < b | c; a | b < c; a & b == c; a ^ b & c | d
a << b + c; a + b << c; a * b + c; a + b * c
a @ b @ c; a // b % c
-a * b; -(a * b); a * -b; ~a ** b
(a, b) + (c,); [a] * 2; {a} | {b}
a if b else (yield)
f(a)(*b)(**c)
a.b[c](d).e[f:g].h
((((a))))
(a)(b); (a).b; (a)[b]
