# Numbers, strings, bytes in every spelling.
0; 1; 42; 1234567890123456789012345678901234567890; 0_0; 1_000_000; 00; 0_0_0
0x0; 0xdeadBEEF; 0X1f; 0x_ff; 0xffff_ffff_ffff_ffff_ffff; 0o17; 0O7_7; 0o_0; 0b101; 0B1_0; 0b_1
1.0; 1.; .5; 0.0; 00.5; 1_0.0_1; 1e10; 1E10; 1e+10; 1e-10; 1.5e3; .5e-3; 1.e2; 1_0e1_0; 0e0; 1e308; 1e309; 5e-324; 1e-400
1j; 1J; 1.5j; .5j; 1e3j; 0j; 00j; 09j; 1_0j; 1.e1j
0.1; 0.2; 0.30000000000000004; 9007199254740993.0; 1.7976931348623157e308; 2.2250738585072014e-308; 4.9406564584124654e-324
123456789.123456789e-5; 9999999999999999.0; 0.1e1; 17.0e-1
'single'; "double"; '''triple single'''; """triple double"""
''; ""; ''''''; """"""
'it\'s'; "say \"hi\""; 'mixed "quotes"'; "mixed 'quotes'"
'''it's "both"'''; """it's "both" too"""
'\n\t\r\\\'\"\a\b\f\v\0'; '\1\12\123\377\400\777'; '\x00\x41\xff'; '\u0041\u00e9\u3042\uffff'; '\U00000041\U0001f600\U0010ffff'
'\N{BULLET}\N{LATIN SMALL LETTER E WITH ACUTE}\N{GREEK SMALL LETTER ALPHA}'
'\d\w\ \%\{\}\z\8\9'
'line \
continued'
"""line \
continued in triple"""
'''multi
line
string'''
"""ends with quote\""""
'''ends with backslash\\'''
r'raw \n \' \\'; R"raw \d"; r'\''; r"\\"
r'''raw
multi \
line'''
u'unicode'; U"UNICODE"; u'''u triple'''
b'bytes'; B"BYTES"; b'\x00\xff\n\t\\\'\"\101\0'; b'\d\u0041\N{X}'
b'''triple
bytes'''
rb'raw \n bytes'; Rb"a"; rB'b'; RB'c'; br'd'; bR'e'; Br'f'; BR'g'
'a' 'b'; 'a' "b" '''c''' """d"""; 'a' r'\n' u'c'; b'a' b'b' rb'\c'
('implicit'
 'concatenation'
 'across lines')
'é'; "日本語"; '𝄞'; '\ud800'; 'a\x00b'; '\udc80\udfff'
'tab	inside'; 'form feed inside'
x = 'a' if b else "c" 'd'

# numeric literals written directly against a keyword (accepted by the reference, with a deprecation warning)
adj_a = 0 if y<1else 2
adj_b = [1for x in y]
adj_c = 1if x else 2
adj_d = 1or 2
adj_e = 1and 2
adj_f = 1in y
adj_g = 1is not None
adj_h = [0x1for x in y]
adj_i = 1_0if x else 2_0if y else 3
adj_j = 1.5if x else .5if y else 5.if z else 0
adj_k = 1jif x else 2.5jif y else 0
adj_l = 0b1and 0o7or 0xaif x else 0
adj_m = 1e5if x else 1e-5if y else 1E+5or 2
adj_n = [1,2][0if x else 1]
adj_o = {1:2for x in y}
adj_p = 0if x else 00and 0_0is 0
adj_q = 0 if y<1.else 2
adj_r = 0 if y<1.5else 3
adj_s = 0 if y<.5else 0 if y<5.else 0 if y<1_0.0_1else 4
longest_names = '\N{BOX DRAWINGS LIGHT DIAGONAL UPPER CENTRE TO MIDDLE LEFT AND MIDDLE RIGHT TO LOWER CENTRE}' "\N{BOX DRAWINGS LIGHT DIAGONAL UPPER CENTRE TO MIDDLE RIGHT AND MIDDLE LEFT TO LOWER CENTRE}"
longest_names_f = f'{x}\N{BOX DRAWINGS LIGHT DIAGONAL UPPER CENTRE TO MIDDLE LEFT AND MIDDLE RIGHT TO LOWER CENTRE}{y}'; short_names = '\N{OX}\N{ANT}\N{BAT}' u'\N{ox}'
