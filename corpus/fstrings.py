# f-strings (pre PEP 701 forms).
f''; f""; F''; f''''''; f""""""
f'text'; f"text {x} more"; f'{x}'; f'{x}{y}'; f'{x} {y}'; f'a{x}b{y}c'
f'{x!r}'; f'{x!s}'; f'{x!a}'; f'{x !r}'; f'{ x }'; f'{x:}'; f'{x:>10}'; f'{x!r:>10}'; f'{x:{w}}'; f'{x:{w}.{p}}'; f'{x:>{w}.{p}f}'
f'{x:a{y}b}'; f'{x:{y}{z}}'; f'{x!r:{y!s}}'
f'{{}}'; f'{{'; f'}}'; f'{{{x}}}'; f'a{{b}}c'; f'{{x}}'; f'{{{{x}}}}'
f'{x=}'; f'{x = }'; f'{x=!r}'; f'{x=!s}'; f'{x=:>10}'; f'{x = !r:>10}'; f'{x+y=}'; f'{ x = }'; f'{f(a, b)=}'; f'{x=:{w}}'
f'{a + b}'; f'{a * (b + c)}'; f'{a if b else c}'; f'{(lambda x: x)(1)}'; f'{(lambda: 1)()}'; f'{a != b}'; f'{a!=b}'; f'{a == b}'; f'{a <= b}'; f'{a >= b!r}'
f'{(y := 1)}'; f'{x[1]}'; f'{x["k"]}'; f"{x['k']}"; f'{x[1:2]}'; f'{ {1: 2}[1]}'; f'{ {1, 2} }'; f'{[i for i in y]}'; f'{f(*a, **k)}'
f'{x.y.z}'; f'{x()}'; f'{x,}'; f'{x, y}'; f'{*x, y}'; f'{-x}'; f'{not x}'; f'{await x}'; f'{(yield)}'; f'{(yield x)}'
f'{"nested"}'; f"{'nested'}"; f'{"a" "b"}'; f'''{"a"}{'b'}'''; f"""{'a'}{"b"}"""; f'{"}"}'; f'{"{"}'; f'{":"}'; f'{"!r"}'
f'{f"{x}"}'; f'''{f"{f'{x}'}"}'''
f'\n{x}\t'; f'\x41{x}\u00e9'; f'\N{BULLET}{x}'; f'\{x}'; f'{x}\\'; f'\\{x}'
rf'\n{x}'; fr'\d{x}'; Rf'{x}\ '; fR"{x}"; FR'{x}'; rF'{x}'; rf'{x:\d}'
f'''triple {x}
multi
{y}'''
f"""{
x
}"""
f'''{x
}'''
f'a' 'b'; 'a' f'b'; f'a{x}' f'b{y}'; 'a' f'{x}' 'b'; f'{x}' "b" f"{y}" 'c'; u'a' f'{x}'; f'{x}' r'\n' f'{y}'; f'' ''; '' f''
('a'
 f'{x}'
 'b' f'''{y}
''')
f'{x:%Y-%m-%d}'; f'{x:,}'; f'{x:_}'; f'{x: }'; f'{x:0>+#10,.3f}'; f'{x::}'; f'{x:!r}'; f'{x:a b}'; f'{x:é}'
f'é{x}日本'; f'{é}'; f'𝄞{x}𝄞'
f'{x:{"a"}}'; f"{x:{'a'}}"; f'{x:{y!r}}'
f'{x!r:^{width}}|{y!s:<{w2}}|{z!a:>{w3}.{p3}}'
f'{a}{b}{c}{d}{e}{f}{g}{h}'
f'{lambda_}'; f'{x if y else z!r:>5}'
f'{x:=10}'; f'{x:=^10}'; f'{x!r:=>{w}}'; f'{x=:=+8}'; f'{x:=}'; f'{x:==10}'; f'{x:!=5}'; f'{x:<=5}'; f'{x:>=5}'; f'{(y:=1):=4}'; f'{x :=5}'
f'{x:!<5}'; f'{x:=<5}'; f'{x!s:!>5}'; f'{x=!r:=^9}'; f'{x: =5}'; f'{x::=5}'
