#!/bin/bash
# dev helper: run every check's quick (or $2) tier at seed $1, one summary line per check
seed=${1:-0}; tier=${2:-quick}
cd /verif
for c in $(python3 -c "import json;print(' '.join(x['property_id'] for x in json.load(open('MANIFEST.json'))['checks']))"); do
  out=$(VERIF_SEED=$seed python3 -m mon check $c --tier $tier 2>&1); rc=$?
  echo "rc=$rc $(echo "$out" | grep -v 'Warn' | grep -E "^$c tier" | cut -c1-160) $(echo "$out" | grep -c '^VIOLATION') violation-lines $(echo "$out" | grep '^INCONCLUSIVE' | cut -c1-200)"
done
