#!/usr/bin/env python3
"""Dev helper: mechanical mutants of RustPython/Parser sources, to measure what the checks detect.

  gen  [--seed N] [--count N]            write mutants/plan.json (a seeded sample of single-token mutations)
  run  [--jobs K] [--from I] [--to J]    for each planned mutant: apply it in a private scratch worktree (never in /repo),
                                         run the repository's own tests (a mutant they kill is uninteresting), then the
                                         quick tier of the checks mapped to the file (via VERIF_REPO), record verdicts in
                                         mutants/results.jsonl
  table                                   summary -> mutants/README.md

Mutation operators (one token on one line; non-compiling mutants are dropped): relational and equality operators,
&& / ||, + / - on offsets, integer constants +-1, removal of a `!`, removal of a whole call statement, swap of
start/end accessors, range bound ..= / .. .
"""
import hashlib
import json
import os
import random
import re
import shutil
import subprocess
import sys
import time

ROOT = "/verif/mutants"
FILES = {
    "parser/src/lexer.rs": ["C05", "C01", "C08", "C03", "C04", "C10"],
    "parser/src/string.rs": ["C06", "C07", "C02", "C03", "C04"],
    "parser/src/soft_keywords.rs": ["C01", "C08", "C10", "C03"],
    "parser/src/function.rs": ["C04", "C01"],
    "parser/src/parser.rs": ["C09", "C01", "C10"],
    "parser/src/python.rs": ["C01", "C02", "C07"],
    "literal/src/escape.rs": ["C16", "C11"],
    "literal/src/float.rs": ["C17", "C18", "C19"],
    "literal/src/format.rs": ["C17", "C18"],
    "format/src/format.rs": ["C18", "C20"],
    "format/src/cformat.rs": ["C19"],
    "ast/src/unparse.rs": ["C11"],
    "ast/src/source_locator.rs": ["C13"],
    "ast/src/optimizer.rs": ["C12"],
    "ast/src/fold.rs": ["C12"],
    "ast/src/generic.rs": ["C14", "C01"],
    "core/src/source_code.rs": ["C13", "C15"],
    "vendored/src/source_location/line_index.rs": ["C15", "C13"],
    "vendored/src/source_location/newlines.rs": ["C15"],
    "vendored/src/source_location/mod.rs": ["C15", "C13"],
    "vendored/src/text_size/range.rs": ["C15"],
    "vendored/src/text_size/size.rs": ["C15"],
}
OPS = [
    (r"<=", ["<"]), (r">=", [">"]), (r"(?<![<\-=])<(?![<=])(?=\s)", ["<="]), (r"(?<![>\-=])>(?![>=])(?=\s)", [">="]),
    (r"==", ["!="]), (r"!=", ["=="]), (r"&&", ["||"]), (r"\|\|", ["&&"]),
    (r"(?<=\s)\+(?=\s)", ["-"]), (r"(?<=\s)-(?=\s)", ["+"]), (r"\+=", ["-="]), (r"-=", ["+="]),
    (r"\.\.=", [".."]), (r"(?<=\w)\.\.(?=\w)", ["..="]),
    (r"\b([0-9]+)\b", ["INC", "DEC"]),
    (r"!(?=[a-z(])", [""]),
    (r"\.start\(\)", [".end()"]), (r"\.end\(\)", [".start()"]),
    (r"\bSome\(", ["None.or(Some("]),  # placeholder never used (kept out by filter below)
]


def sh(cmd, cwd=None, env=None, timeout=3600):
    p = subprocess.Popen(cmd, cwd=cwd, shell=isinstance(cmd, str), stdout=subprocess.PIPE, stderr=subprocess.STDOUT, text=True, env=env, start_new_session=True)
    try:
        out, _ = p.communicate(timeout=timeout)
    except subprocess.TimeoutExpired:
        import signal
        os.killpg(p.pid, signal.SIGKILL)   # the whole group: a test binary stuck in a loop would otherwise live on
        p.wait()
        raise
    return p.returncode, out


def candidates():
    out = []
    for rel in FILES:
        path = os.path.join("/repo", rel)
        if not os.path.exists(path):
            continue
        lines = open(path, encoding="utf-8").read().split("\n")
        in_tests = False
        for ln, line in enumerate(lines):
            st = line.strip()
            if re.match(r"(#\[cfg\(test\)\]|mod tests\b)", st):
                in_tests = True
            if in_tests or st.startswith("//") or st.startswith("#[") or "debug_assert" in st or "assert!" in st or st.startswith("use ") or "rustpython_parser_verif" in st:
                continue
            code = line.split("//")[0]
            # statement deletion: a lone method call on self / a mutable local
            if re.match(r"\s*(self\.)?[a-z_\.]+\([^;{}]*\);\s*$", code) and "return" not in code and "let " not in code:
                out.append({"file": rel, "line": ln, "col": 0, "old": code.strip(), "new": "", "op": "delete-call"})
            for pat, reps in OPS:
                if pat.startswith(r"\bSome"):
                    continue
                for m in re.finditer(pat, code):
                    # skip generics / lifetimes / arrows / string contents (rough)
                    pre = code[:m.start()]
                    if pre.count('"') % 2 == 1 or pre.count("'") % 2 == 1 and "'" in code[m.end():]:
                        continue
                    for rep in reps:
                        if rep in ("INC", "DEC"):
                            v = int(m.group(1))
                            if v > 0x10ffff or (m.start() > 0 and code[m.start() - 1] in "._") or code[m.end():m.end() + 1] in ("_", "u", "i", "."):
                                continue
                            new = str(v + 1 if rep == "INC" else max(0, v - 1))
                            if new == m.group(0):
                                continue
                        else:
                            new = rep
                        out.append({"file": rel, "line": ln, "col": m.start(), "old": m.group(0), "new": new, "op": pat})
    return out


GRAMMAR_OPS = [
    (r"ast::Operator::(\w+)", ["Add", "Sub", "Mult", "Div", "Mod", "Pow", "LShift", "RShift", "BitOr", "BitXor", "BitAnd", "FloorDiv", "MatMult"]),
    (r"ast::CmpOp::(\w+)", ["Eq", "NotEq", "Lt", "LtE", "Gt", "GtE", "Is", "IsNot", "In", "NotIn"]),
    (r"ast::UnaryOp::(\w+)", ["Invert", "Not", "UAdd", "USub"]),
    (r"ast::BoolOp::(\w+)", ["And", "Or"]),
    (r"ast::ExprContext::(\w+)", ["Load", "Store", "Del"]),
    (r"ast::ConversionFlag::(\w+)", ["None", "Str", "Ascii", "Repr"]),
]


def grammar_candidates():
    """Mutations of the grammar actions in the generated parser (parser/src/python.rs, `fn __action…` bodies only):
    another variant of the same enum, `end_location` -> `location` (and back) in range expressions, `.start()` <->
    `.end()`, boolean flags, integer constants."""
    rel = "parser/src/python.rs"
    lines = open(os.path.join("/repo", rel), encoding="utf-8").read().split("\n")
    out = []
    first = next(i for i, l in enumerate(lines) if l.startswith("fn __action"))
    for ln in range(first, len(lines)):
        line = lines[ln]
        code = line.split("//")[0]
        if "TextSize, TextSize, TextSize" in code or code.strip().startswith(("fn ", "#[", ">(", ") ->")):
            continue
        for pat, variants in GRAMMAR_OPS:
            for m in re.finditer(pat, code):
                cur = m.group(1)
                if cur not in variants:
                    continue
                alt = variants[(variants.index(cur) + 1) % len(variants)]
                out.append({"file": rel, "line": ln, "col": m.start(1), "old": cur, "new": alt, "op": "enum-variant"})
        for pat, new in ((r"\bend_location\b", "location"), (r"(?<![_\w])location\b", "end_location"), (r"\.start\(\)", ".end()"), (r"\.end\(\)", ".start()"),
                         (r"\btrue\b", "false"), (r"\bfalse\b", "true")):
            for m in re.finditer(pat, code):
                if "(_, " in code:
                    continue   # a parameter binding, not a use
                out.append({"file": rel, "line": ln, "col": m.start(), "old": m.group(0), "new": new, "op": pat})
        for m in re.finditer(r"(?<![\w.])([0-9]+)(?![\w.])", code):
            v = int(m.group(1))
            out.append({"file": rel, "line": ln, "col": m.start(), "old": m.group(0), "new": str(v + 1), "op": "const+1"})
    return out


def gen_grammar(seed, count):
    os.makedirs(ROOT, exist_ok=True)
    c = grammar_candidates()
    rng = random.Random(seed)
    rng.shuffle(c)
    plan = c[:count]
    for i, m in enumerate(plan):
        m["id"] = 10000 + i
    json.dump({"seed": seed, "candidates": len(c), "plan": plan}, open(os.path.join(ROOT, "plan_grammar.json"), "w"), indent=0)
    from collections import Counter
    print("candidates", len(c), "planned", len(plan), Counter(m["op"] for m in plan))


def gen(seed, count):
    os.makedirs(ROOT, exist_ok=True)
    c = candidates()
    rng = random.Random(seed)
    # the same number of mutants per file (files differ a lot in size)
    by = {}
    for m in c:
        by.setdefault(m["file"], []).append(m)
    plan = []
    per = max(1, count // len(by))
    for f, ms in sorted(by.items()):
        rng.shuffle(ms)
        plan += ms[:per]
    rng.shuffle(plan)
    for i, m in enumerate(plan):
        m["id"] = i
    json.dump({"seed": seed, "candidates": len(c), "plan": plan}, open(os.path.join(ROOT, "plan.json"), "w"), indent=0)
    print("candidates", len(c), "planned", len(plan), {f: len(v) for f, v in by.items()})


def apply(wt, m):
    path = os.path.join(wt, m["file"])
    lines = open(path, encoding="utf-8").read().split("\n")
    line = lines[m["line"]]
    if m["op"] == "delete-call":
        lines[m["line"]] = re.sub(r"\S.*$", "", line)
    else:
        assert line[m["col"]:m["col"] + len(m["old"])] == m["old"], (line, m)
        lines[m["line"]] = line[:m["col"]] + m["new"] + line[m["col"] + len(m["old"]):]
    open(path, "w", encoding="utf-8").write("\n".join(lines))
    return line, lines[m["line"]]


def worker(k, todo, jobs):
    wt = "/tmp/mw_%d" % k
    sh("git -C /repo worktree remove --force %s" % wt)
    rc, o = sh("git -C /repo worktree add --detach %s HEAD" % wt)
    assert rc == 0, o
    tgt = "/tmp/mw_target_%d" % k
    env = dict(os.environ, CARGO_TARGET_DIR=tgt, CARGO_NET_OFFLINE="true")
    out = open(os.path.join(ROOT, "results.%d.jsonl" % k), "a")
    try:
        for m in todo:
          try:
            t0 = time.time()
            sh("git checkout -- .", cwd=wt)
            before, after = apply(wt, m)
            rec = dict(m, before=before.strip()[:160], after=after.strip()[:160])
            rc, o = sh("cargo test --workspace --no-fail-fast --offline 2>&1 | grep -E '^test result|^error|FAILED|panicked' | head -40", cwd=wt, env=env, timeout=1200)
            results = [l for l in o.splitlines() if l.startswith("test result")]
            if any(l.startswith("error") for l in o.splitlines()) and len(results) < 6:
                rec["status"] = "does-not-compile"
            elif any(" 0 failed" not in l for l in results) or len(results) < 6:
                rec["status"] = "killed-by-existing-tests"
            else:
                rec["status"] = "passes-existing-tests"
                rec["checks"] = {}
                for c in FILES[m["file"]]:
                    e2 = dict(os.environ, VERIF_REPO=wt, VERIF_JOBS=str(jobs), VERIF_SEED="0", VERIF_CALL_TIMEOUT="240")
                    t1 = time.time()
                    try:
                        pr = subprocess.Popen(["python3", "-m", "mon", "check", c, "--tier", "quick"], cwd="/verif", stdout=subprocess.PIPE, stderr=subprocess.DEVNULL, text=True, env=e2, start_new_session=True)
                        try:
                            so, _ = pr.communicate(timeout=1500)
                        except subprocess.TimeoutExpired:
                            import signal
                            os.killpg(pr.pid, signal.SIGKILL)
                            pr.wait()
                            raise
                        code = pr.returncode
                        classes = sorted({l.split("class=")[1].split(" ")[0] for l in so.splitlines() if l.startswith("  class=")})[:4]
                        inc = [l[:200] for l in so.splitlines() if l.startswith("INCONCLUSIVE")][:2]
                    except subprocess.TimeoutExpired:
                        code, classes, inc = 3, [], ["timeout"]
                    rec["checks"][c] = {"rc": code, "classes": classes, "inconclusive": inc, "s": round(time.time() - t1)}
                    if code == 1:
                        break   # detected; the remaining checks are not needed for the verdict
                    if code == 3 and ("timeout" in inc or any("watchdog" in x for x in inc)):
                        rec["hang"] = True   # the mutant makes the library hang: the other checks would only time out as well
                        if c != "C03" and "C03" in FILES[m["file"]] and "C03" not in rec["checks"]:
                            # ... except C03, whose property is "never hangs": it identifies the input
                            e3 = dict(e2, VERIF_CALL_TIMEOUT="120")
                            pr = subprocess.Popen(["python3", "-m", "mon", "check", "C03", "--tier", "quick"], cwd="/verif", stdout=subprocess.PIPE, stderr=subprocess.DEVNULL, text=True, env=e3, start_new_session=True)
                            try:
                                so, _ = pr.communicate(timeout=3000)
                                rec["checks"]["C03"] = {"rc": pr.returncode, "classes": sorted({l.split("class=")[1].split(" ")[0] for l in so.splitlines() if l.startswith("  class=")})[:4], "inconclusive": [], "s": 0}
                            except subprocess.TimeoutExpired:
                                import signal
                                os.killpg(pr.pid, signal.SIGKILL)
                                pr.wait()
                        break
                rec["detected_by"] = [c for c, v in rec["checks"].items() if v["rc"] == 1]
            rec["wall_s"] = round(time.time() - t0)
            rec["ts"] = time.time()
            out.write(json.dumps(rec, ensure_ascii=False) + "\n")
            out.flush()
            sh("git checkout -- .", cwd=wt)
          except Exception as e:   # one bad mutant must not end the worker
            import traceback
            sys.stderr.write("mutant %s: %s\n%s\n" % (m.get("id"), e, traceback.format_exc()))
            sys.stderr.flush()
    finally:
        sh("git -C /repo worktree remove --force %s" % wt)
        shutil.rmtree(tgt, ignore_errors=True)
        shutil.rmtree(os.path.join("/verif/build", "alt-" + hashlib.sha1(wt.encode()).hexdigest()[:10]), ignore_errors=True)


PLAN = "plan.json"


def run(jobs, lo, hi, ids=None):
    plan = json.load(open(os.path.join(ROOT, PLAN)))["plan"]
    if ids:
        todo = [m for m in plan if m["id"] in ids]
        return _spawn(todo, jobs)
    done = set()
    for f in os.listdir(ROOT):
        if f.startswith("results.") and f.endswith(".jsonl"):
            for l in open(os.path.join(ROOT, f)):
                done.add(json.loads(l)["id"])
    todo = [m for m in plan if lo <= m["id"] < hi and m["id"] not in done]
    return _spawn(todo, jobs)


def _spawn(todo, jobs):
    print("to run:", len(todo))
    pids = []
    per_check_jobs = max(2, 16 // jobs)
    for k in range(jobs):
        mine = todo[k::jobs]
        pid = os.fork()
        if pid == 0:
            try:
                worker(k, mine, per_check_jobs)
            finally:
                os._exit(0)
        pids.append(pid)
    for p in pids:
        os.waitpid(p, 0)


def table():
    recs = []
    for f in sorted(os.listdir(ROOT)):
        if f.startswith("results.") and f.endswith(".jsonl"):
            recs += [json.loads(l) for l in open(os.path.join(ROOT, f))]
    latest = {}
    for r in sorted(recs, key=lambda r: r.get("ts", 0)):
        latest[r["id"]] = r   # a mutant re-run after a check was strengthened: the latest verdict counts
    recs = sorted(latest.values(), key=lambda r: r["id"])
    from collections import Counter
    st = Counter(r["status"] for r in recs)
    for r in recs:
        if r["status"] == "passes-existing-tests" and any("cargo build failed" in " ".join(v["inconclusive"]) for v in r["checks"].values()):
            r["status"] = "does-not-compile"   # under the cargo feature the check builds with (the default test run does not compile that code)
    st = Counter(r["status"] for r in recs)
    surv = [r for r in recs if r["status"] == "passes-existing-tests"]
    det = [r for r in surv if r.get("detected_by")]
    out = ["# Mechanical mutants", "", "Single-token mutations of the anchored source files (`tools_mutants.py`), each applied in a scratch worktree, never in /repo.",
           "", "* planned and run: %d" % len(recs), "* do not compile: %d" % st["does-not-compile"], "* killed by the repository's own tests: %d" % st["killed-by-existing-tests"],
           "* pass the repository's own tests: %d, of which detected by the mapped checks' quick tier: %d" % (len(surv), len(det)), "",
           "| id | file:line | mutation | detected by | triage |", "|---|---|---|---|---|"]
    tri = {}
    tp = os.path.join(ROOT, "triage.json")
    if os.path.exists(tp):
        tri = json.load(open(tp))
    for r in surv:
        out.append("| %d | %s:%d | `%s` → `%s` | %s | %s |" % (r["id"], r["file"], r["line"] + 1, r["before"].replace("|", "\\|")[:90], r["after"].replace("|", "\\|")[:90],
                                                       ", ".join(r.get("detected_by", [])) or "—", tri.get(str(r["id"]), "")))
    open(os.path.join(ROOT, "README.md"), "w").write("\n".join(out) + "\n")
    print("\n".join(out[:12]))
    print("undetected:", [r["id"] for r in surv if not r.get("detected_by")])


if __name__ == "__main__":
    a = sys.argv[1:]
    def opt(name, d):
        return int(a[a.index(name) + 1]) if name in a else d
    if "--plan" in a:
        PLAN = a[a.index("--plan") + 1]
    if a[0] == "gen-grammar":
        gen_grammar(opt("--seed", 1), opt("--count", 150))
    elif a[0] == "gen":
        gen(opt("--seed", 1), opt("--count", 300))
    elif a[0] == "run":
        ids = set(int(x) for x in a[a.index("--ids") + 1].split(",")) if "--ids" in a else None
        run(opt("--jobs", 3), opt("--from", 0), opt("--to", 10 ** 9), ids)
    elif a[0] == "table":
        table()
