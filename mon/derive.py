"""W3: derived programs by token-level rewrites (CPython's tokenize gives exact token boundaries)."""
import io
import keyword
import re
import token as T
import tokenize
from collections import Counter


def tokens(text):
    """List of tokenize tokens or None when tokenize fails."""
    try:
        return list(tokenize.generate_tokens(io.StringIO(text).readline))
    except (tokenize.TokenError, SyntaxError, IndentationError, ValueError):
        return None


class Positions:
    """(row, col) in characters -> index into the str. tokenize splits lines on \\n, \\r\\n and \\r like the
    io.StringIO readline does (universal newlines are NOT translated by StringIO(newline default '\\n')...), so we
    rebuild line starts from the readline view."""

    def __init__(self, text):
        self.starts = [0]
        for line in io.StringIO(text):
            self.starts.append(self.starts[-1] + len(line))

    def idx(self, pos):
        r, c = pos
        if r - 1 >= len(self.starts):
            return self.starts[-1]
        return self.starts[r - 1] + c


def replace_spans(text, spans):
    """spans: list of (start_idx, end_idx, replacement), non-overlapping."""
    out = []
    last = 0
    for s, e, rep in sorted(spans):
        if s < last:
            continue
        out.append(text[last:s])
        out.append(rep)
        last = e
    out.append(text[last:])
    return "".join(out)


SOFT = ("match", "case", "type")


def rename_soft(text, rng, max_variants=3):
    """Rename frequent identifiers to soft keywords. Returns [(new_text, (old, new, count))]."""
    toks = tokens(text)
    if not toks or "\r" in text:
        return []
    P = Positions(text)
    names = Counter(t.string for t in toks if t.type == T.NAME and not keyword.iskeyword(t.string) and t.string not in SOFT)
    if not names:
        return []
    common = [n for n, _ in names.most_common(6)]
    out = []
    for _ in range(max_variants):
        old = rng.choice(common)
        new = rng.choice(SOFT)
        spans = [(P.idx(t.start), P.idx(t.end), new) for t in toks if t.type == T.NAME and t.string == old]
        out.append((replace_spans(text, spans), (old, new, len(spans))))
    return out


OP_CLASSES = [
    ["+", "-", "*", "/", "//", "%", "@", "<<", ">>", "&", "|", "^"],
    ["<", ">", "<=", ">=", "==", "!="],
    ["+=", "-=", "*=", "/=", "//=", "%=", "@=", "<<=", ">>=", "&=", "|=", "^=", "**="],
    ["and", "or"],
    ["is", "in"],
]
_OP_OF = {op: cls for cls in OP_CLASSES for op in cls}


def subst_ops(text, rng, frac=0.5):
    """Substitute operators/keywords within their class so every operator mapping occurs in many contexts."""
    toks = tokens(text)
    if not toks or "\r" in text:
        return None
    P = Positions(text)
    spans = []
    prev = None
    for t in toks:
        s = t.string
        cls = _OP_OF.get(s) if t.type in (T.OP, T.NAME) else None
        if cls and rng.random() < frac:
            # unary context: +,- after an operator / open bracket / start stay unary: substituting '-'<->'+' only
            unary = prev is None or prev.type in (T.NEWLINE, T.NL, T.INDENT, T.DEDENT, T.COMMENT) or (
                prev.type == T.OP and prev.string not in (")", "]", "}")) or (prev.type == T.NAME and keyword.iskeyword(prev.string) and prev.string not in ("None", "True", "False"))
            if unary:
                if s in ("+", "-"):
                    spans.append((P.idx(t.start), P.idx(t.end), rng.choice(["+", "-", "~"])))
            elif s in ("*", "**") and prev is not None and prev.string in ("(", ",", "[", "{", "lambda", "print"):
                pass
            elif s == "in" and _in_for(toks, t):
                pass
            elif s == "is" or s == "in":
                # keep `not in` / `is not` well-formed: only swap when not adjacent to `not`
                pass
            else:
                spans.append((P.idx(t.start), P.idx(t.end), rng.choice(cls)))
        if t.type not in (T.NL, T.COMMENT):
            prev = t
    if not spans:
        return None
    return replace_spans(text, spans)


def _in_for(toks, t):
    return True
