"""W2: grammar-directed random program generator (Python 3.11 grammar + optional PEP 695 insertions).

Validity is not assumed: callers classify every text with CPython. The generator aims at breadth: every statement,
expression, pattern, comprehension, parameter-list shape, decorator, async form, literal prefix/escape/number shape and
pre-PEP 701 f-string form; soft keywords are in the identifier pool.
"""
import random

NAMED, TEST, OR, AND, NOT, CMP, BOR, BXOR, BAND, SHIFT, ARITH, TERM, FACTOR, POWER, AWAIT, PRIMARY, ATOM = range(17)

NAMES = ["a", "b", "c", "x", "y", "z", "foo", "bar", "self", "cls", "_", "__x", "x1", "match", "case", "type", "print",
         "é", "名前", "Δx", "_1", "value", "items", "T", "K"]
RARE_NAMES = ["µ", "ａ", "ﬁ", "𝐱", "ℌ"]  # change under NFKC
ATTRS = ["a", "b", "attr", "match", "case", "type", "real", "é", "__class__", "x1"]
BINOPS = [("|", BOR), ("^", BXOR), ("&", BAND), ("<<", SHIFT), (">>", SHIFT), ("+", ARITH), ("-", ARITH), ("*", TERM),
          ("/", TERM), ("//", TERM), ("%", TERM), ("@", TERM)]
CMPOPS = ["==", "!=", "<", "<=", ">", ">=", "is", "is not", "in", "not in"]
AUGOPS = ["+=", "-=", "*=", "/=", "//=", "%=", "@=", "&=", "|=", "^=", ">>=", "<<=", "**="]
SIMPLE_ESC = ["\\n", "\\t", "\\\\", "\\'", '\\"', "\\a", "\\b", "\\f", "\\r", "\\v", "\\0", "\\7", "\\12", "\\101",
              "\\377", "\\x41", "\\xff", "\\x00", "\\d", "\\ ", "\\%", "\\{"]
TEXT_ESC = ["\\400", "\\501", "\\777", "\\08", "\\79", "\\u00e9", "\\u3042", "\\U0001f600", "\\N{BULLET}", "\\N{LATIN SMALL LETTER A}", "\\uffff", "\\ud800"]
CHARS = ["a", "b", " ", "x", "0", "é", "名", "𝄞", "%", "#", "-", ".", ",", "?", "(", ")"]


class Gen:
    def __init__(self, rng, max_depth=4, pep695=False, fstrings=True):
        self.r = rng
        self.max_depth = max_depth
        self.pep695 = pep695
        self.fstrings = fstrings
        self.insertions = []  # filled by callers that erase PEP 695 pieces

    # ------------------------------------------------------------------ helpers
    def ch(self, xs):
        return xs[self.r.randrange(len(xs))]

    def p(self, x):
        return self.r.random() < x

    def name(self):
        if self.r.random() < 0.004:
            return self.ch(RARE_NAMES)
        return self.ch(NAMES)

    def wrap(self, s, prec, level):
        return "(" + s + ")" if prec < level else s

    # ------------------------------------------------------------------ literals
    def number(self):
        r = self.r
        k = r.randrange(14)
        d = lambda n=3: "".join(r.choice("0123456789") for _ in range(r.randint(1, n)))
        if k == 0:
            return str(r.randrange(0, 10))
        if k == 1:
            return r.choice("123456789") + d(20)
        if k == 2:
            return "0x" + "".join(r.choice("0123456789abcdefABCDEF") for _ in range(r.randint(1, 18)))
        if k == 3:
            return r.choice(["0o", "0O"]) + "".join(r.choice("01234567") for _ in range(r.randint(1, 10)))
        if k == 4:
            return r.choice(["0b", "0B"]) + "".join(r.choice("01") for _ in range(r.randint(1, 70)))
        if k == 5:
            return r.choice("123456789") + "_" + d() + ("_" + d() if self.p(.5) else "")
        if k == 6:
            return d() + "." + (d() if self.p(.7) else "")
        if k == 7:
            return "." + d()
        if k == 8:
            return d() + r.choice("eE") + r.choice(["", "+", "-"]) + d(2)
        if k == 9:
            return d() + "." + d() + r.choice("eE") + r.choice(["", "+", "-"]) + d(3)
        if k == 10:
            return r.choice([d(), d() + ".", "." + d(), d() + "e" + d(1), "0"]) + r.choice("jJ")
        if k == 11:
            return r.choice(["0", "00", "0_0", "0x_ff", "0b_1", "0o_7", "1_000.000_1", "1e1_0", "0.0", "1E5", "0e0", "00.5", "09.5", "0_9j"])
        if k == 12:
            return r.choice(["1" + "0" * r.randint(15, 40), "9" * r.randint(15, 30), "1e308", "1e309", "5e-324", "2.5e-324", "1.7976931348623157e308", "0.1", "1e23", "9007199254740993", "123456789012345678901234567890.5"])
        return str(r.randrange(0, 1 << r.randint(1, 70)))

    def str_body(self, quote, raw, is_bytes, triple):
        r = self.r
        n = r.randrange(0, 6)
        out = []
        for _ in range(n):
            k = r.randrange(10)
            if k < 5:
                c = self.ch(CHARS)
                if is_bytes and not c.isascii():
                    c = "z"
                out.append(c)
            elif k == 5:
                out.append(self.ch(SIMPLE_ESC))
            elif k == 6 and not is_bytes:
                out.append(self.ch(TEXT_ESC))
            elif k == 7:
                q = self.ch(["'", '"'])
                if q == quote[0] and not raw:
                    out.append("\\" + q)
                elif q != quote[0]:
                    out.append(q)
            elif k == 8 and triple:
                out.append(self.ch(["\n", "\n  ", "\\\n"]))
            elif k == 9:
                out.append(self.ch(["\\\n", "{", "}", "{}", "{{", "%s", "\\q"]) if not raw else "\\w")
        s = "".join(out)
        if raw and s.endswith("\\") and (len(s) - len(s.rstrip("\\"))) % 2:
            s += "x"
        if not triple:
            s = s.replace("\n", "\\n") if "\\\n" not in s else s
        if triple and s.endswith(quote[0]):
            s += " "
        return s

    def plain_string(self, allow_bytes=True):
        r = self.r
        is_bytes = allow_bytes and self.p(.2)
        raw = self.p(.2)
        if is_bytes:
            prefix = self.ch(["b", "B", "rb", "bR", "Br", "RB", "rB"]) if raw else self.ch(["b", "B"])
        else:
            prefix = self.ch(["r", "R"]) if raw else self.ch(["", "", "", "u", "U"])
        triple = self.p(.15)
        q = self.ch(["'", '"'])
        quote = q * 3 if triple else q
        return prefix + quote + self.str_body(quote, raw, is_bytes, triple) + quote, is_bytes

    def fstring(self, depth):
        r = self.r
        raw = self.p(.15)
        prefix = self.ch(["rf", "fr", "Rf", "fR", "FR", "rF"]) if raw else self.ch(["f", "F"])
        triple = self.p(.2)
        q = self.ch(["'", '"'])
        quote = q * 3 if triple else q
        other = '"' if q == "'" else "'"
        parts = []
        for _ in range(r.randrange(0, 5)):
            k = r.randrange(8)
            if k < 2:
                parts.append(self.ch(["a", " ", "x=", "é", "%", "{{", "}}", "{{}}", "\\n" if not raw else "\\d", "\\501" if not raw else "\\7", "\\08", "\\x41", "\\u00e9" if not raw else "u", "\\N{BULLET}" if not raw else "n", other]))
            elif k < 7:
                parts.append(self.ffield(depth, q, triple, raw))
            else:
                parts.append(self.ch(["\n", "\\\n"]) if triple else "-")
        return prefix + quote + "".join(parts) + quote

    def fexpr(self, depth, q, triple):
        """Expression text safe inside a pre-PEP 701 replacement field: no backslash, no enclosing quote char, no '#'."""
        for _ in range(8):
            e = self.expr(min(depth + 1, self.max_depth), TEST, nostr=True)
            if "\\" in e or q in e or "#" in e or "\n" in e and not triple:
                continue
            if e.lstrip().startswith("{"):
                e = " " + e
            return e
        return self.name()

    def ffield(self, depth, q, triple, raw):
        r = self.r
        other = '"' if q == "'" else "'"
        k = r.randrange(10)
        if k == 0:
            e = other + self.ch(["s", "a b", "", "é", "x:y", "!r", "{", "}"]) + other
        elif k == 1:
            e = self.ch(["a != b", "a!=b", "(lambda x: x)", "(lambda: 1)()", "(y := 1)", "a if b else c", "*a, b", "a, b", "d['k']" if q != "'" else 'd["k"]',
                         "x[1:2]", " {1: 2}[1]", " {1, 2}", "f(a=1)", "a == b", "a <= b", "a >= b", "not a", "-x", "x.y.z", "(yield)", "await x", "[i for i in y]", "f(*a, **k)"])
        else:
            e = self.fexpr(depth, q, triple)
        s = "{" + self.ch(["", "", " "]) + e
        if self.p(.15):
            s += self.ch(["=", " = ", "= ", " ="])
        else:
            s += self.ch(["", "", " "])
        if self.p(.25):
            s += "!" + self.ch("sra")
        if self.p(.3):
            spec = self.ch(["", ">10", "x", ".2f", " ", "{w}", "{w}.{p}", ">{w}", "{a!r:>{b}}" if False else "{a!r}", "%Y-%m", "é", "0>+#10,.3f", "{{" if False else "<", "a b", ":", "::", "!r", "=10", "=^10", "=+8", "=", "=>{w}", "!=5", "<=5", "==10", "{{1:2}[1]}", ">{{1:5}[1]}", "{{y}}", "{ {1}}.{{2}}"])
            s += ":" + spec
        return s + "}"

    def string(self, depth=0):
        """One or more adjacent literals (implicit concatenation)."""
        n = 1 if self.p(.8) else self.r.randint(2, 4)
        first, is_bytes = self.plain_string()
        parts = [first]
        if not is_bytes and self.fstrings and self.p(.35):
            parts = [self.fstring(depth)]
        for _ in range(n - 1):
            if is_bytes:
                s, b = self.plain_string()
                while not b:
                    s, b = self.plain_string()
            elif self.fstrings and self.p(.4):
                s = self.fstring(depth)
            else:
                s, b = self.plain_string(allow_bytes=False)
            parts.append(s)
        return self.ch([" ", " ", "  ", ""]).join(parts) if len(parts) > 1 else parts[0]

    # ------------------------------------------------------------------ expressions
    def atom(self, depth, nostr=False):
        r = self.r
        k = r.randrange(22)
        small = depth >= self.max_depth
        if k < 6 or (small and k > 10):
            return self.name()
        if k < 8:
            return self.number()
        if k < 10:
            if nostr:
                return self.name()
            return self.string(depth)
        if k == 10:
            return self.ch(["None", "True", "False", "...", "__debug__"])
        if k == 11:
            n = r.randrange(0, 4)
            if n == 0:
                return "()"
            elts = [self.star_or_expr(depth + 1) for _ in range(n)]
            return "(" + ", ".join(elts) + ("," if n == 1 or self.p(.2) else "") + ")"
        if k == 12:
            n = r.randrange(0, 4)
            return "[" + ", ".join(self.star_or_expr(depth + 1) for _ in range(n)) + ("," if n and self.p(.2) else "") + "]"
        if k == 13:
            n = r.randrange(1, 4)
            return "{" + ", ".join(self.star_or_expr(depth + 1) for _ in range(n)) + ("," if self.p(.2) else "") + "}"
        if k == 14:
            n = r.randrange(0, 4)
            items = []
            for _ in range(n):
                if self.p(.2):
                    items.append("**" + self.expr(depth + 1, BOR))
                else:
                    items.append(self.expr(depth + 1, TEST) + ": " + self.expr(depth + 1, TEST))
            return "{" + ", ".join(items) + ("," if n and self.p(.2) else "") + "}"
        if k == 15:
            return "[" + self.expr(depth + 1, NAMED) + self.comp_for(depth + 1) + "]"
        if k == 16:
            return "{" + self.expr(depth + 1, NAMED) + self.comp_for(depth + 1) + "}"
        if k == 17:
            return "{" + self.expr(depth + 1, TEST) + ": " + self.expr(depth + 1, TEST) + self.comp_for(depth + 1) + "}"
        if k == 18:
            return "(" + self.expr(depth + 1, NAMED) + self.comp_for(depth + 1) + ")"
        if k == 19:
            return "(" + self.ch(["yield", "yield " + self.exprlist(depth + 1), "yield from " + self.expr(depth + 1, TEST)]) + ")"
        if k == 20:
            return "(" + self.expr(depth + 1, NAMED) + ")"
        return self.name()

    def star_or_expr(self, depth, named_ok=True):
        if self.p(.12):
            return "*" + self.expr(depth, BOR)
        return self.expr(depth, NAMED if named_ok and self.p(.1) else TEST)

    def comp_for(self, depth):
        out = ""
        for i in range(1 if self.p(.8) else 2):
            out += (" async" if self.p(.1) else "") + " for " + self.target_list(depth) + " in " + self.expr(depth, OR)
            for _ in range(self.r.choice([0, 0, 1, 2])):
                out += " if " + self.expr(depth, OR if self.p(.9) else NAMED)
        return out

    def target(self, depth):
        k = self.r.randrange(10)
        if k < 5 or depth >= self.max_depth:
            return self.name()
        if k == 5:
            return self.primary(depth + 1) + "." + self.ch(ATTRS)
        if k == 6:
            return self.primary(depth + 1) + "[" + self.slices(depth + 1) + "]"
        if k == 7:
            return "(" + self.target_list(depth + 1) + ")"
        if k == 8:
            return "[" + self.target_list(depth + 1) + "]"
        return "*" + self.name()

    def target_list(self, depth):
        n = 1 if self.p(.7) else self.r.randint(2, 3)
        ts = [self.target(depth) for _ in range(n)]
        stars = [t for t in ts if t.startswith("*")]
        if len(stars) > 1 or (n == 1 and stars):
            ts = [t.lstrip("*") for t in ts]
        return ", ".join(ts) + ("," if self.p(.1) else "")

    def slices(self, depth):
        def one():
            if self.p(.4):
                lo = self.expr(depth, TEST) if self.p(.6) else ""
                hi = self.expr(depth, TEST) if self.p(.6) else ""
                s = lo + ":" + hi
                if self.p(.3):
                    s += ":" + (self.expr(depth, TEST) if self.p(.6) else "")
                return s
            if self.p(.1):
                return "*" + self.expr(depth, BOR if self.p(.85) else TEST)
            return self.expr(depth, NAMED if self.p(.1) else TEST)
        n = 1 if self.p(.75) else self.r.randint(2, 3)
        return ", ".join(one() for _ in range(n)) + ("," if self.p(.1) else "")

    def call_args(self, depth, genexp_ok=True):
        r = self.r
        if genexp_ok and self.p(.1):
            return self.expr(depth, NAMED) + self.comp_for(depth)
        n = r.randrange(0, 5)
        args = []
        seen_kw = False
        seen_dstar = False
        used = set()
        for _ in range(n):
            k = r.randrange(8)
            if k < 4 and not seen_kw:
                args.append(self.expr(depth, NAMED if self.p(.1) else TEST))
            elif k == 4 and not seen_dstar:
                args.append("*" + self.expr(depth, TEST))
            elif k == 5:
                args.append("**" + self.expr(depth, TEST))
                seen_kw = seen_dstar = True
            else:
                nm = self.name()
                if nm in used:
                    continue
                used.add(nm)
                args.append(nm + self.ch(["=", " = "]) + self.expr(depth, TEST))
                seen_kw = True
        return ", ".join(args) + ("," if args and self.p(.15) else "")

    def primary(self, depth, nostr=False):
        s = self.atom(depth, nostr)
        if s[0] in "0123456789." and not s.startswith("..."):
            s = "(" + s + ")" if self.p(.5) else self.name()
        for _ in range(self.r.choice([0, 0, 1, 1, 2, 3])):
            k = self.r.randrange(3)
            if k == 0:
                s += "." + self.ch(ATTRS)
            elif k == 1:
                s += "(" + self.call_args(depth + 1) + ")"
            else:
                s += "[" + self.slices(depth + 1) + "]"
        return s

    def lambda_params(self, depth):
        return self.params(depth, annotations=False)

    def expr(self, depth, level=TEST, nostr=False):
        r = self.r
        if depth >= self.max_depth:
            return self.primary(depth, nostr) if self.p(.3) else self.atom(depth, nostr)
        k = r.randrange(30)
        d = depth + 1
        if k < 8:
            return self.primary(d, nostr)
        if k < 13:
            op, prec = self.ch(BINOPS)
            return self.wrap(self.expr(d, prec, nostr) + " " + op + " " + self.expr(d, prec + 1, nostr), prec, level)
        if k == 13:
            left = self.expr(d, AWAIT, nostr)
            return self.wrap(left + self.ch(["**", " ** "]) + self.expr(d, FACTOR, nostr), POWER, level)
        if k < 16:
            return self.wrap(self.ch(["-", "+", "~", "- ", "~ "]) + self.expr(d, FACTOR, nostr), FACTOR, level)
        if k < 18:
            n = 1 if self.p(.8) else 2
            s = self.expr(d, BOR, nostr)
            for _ in range(n):
                s += " " + self.ch(CMPOPS) + " " + self.expr(d, BOR, nostr)
            return self.wrap(s, CMP, level)
        if k == 18:
            return self.wrap("not " + self.expr(d, NOT, nostr), NOT, level)
        if k < 21:
            op, prec = self.ch([("and", AND), ("or", OR)])
            n = self.r.randint(2, 3)
            return self.wrap((" " + op + " ").join(self.expr(d, prec + 1, nostr) for _ in range(n)), prec, level)
        if k == 21:
            return self.wrap(self.expr(d, OR, nostr) + " if " + self.expr(d, OR, nostr) + " else " + self.expr(d, TEST, nostr), TEST, level)
        if k == 22:
            ps = self.lambda_params(d)
            return self.wrap("lambda" + (" " + ps if ps else "") + ": " + self.expr(d, TEST, nostr), TEST, level)
        if k == 23:
            return self.wrap(self.name() + " := " + self.expr(d, TEST, nostr), NAMED, level)
        if k == 24:
            return self.wrap("await " + self.expr(d, PRIMARY, nostr), AWAIT, level)
        return self.atom(d, nostr)

    def exprlist(self, depth, allow_star=True):
        n = 1 if self.p(.7) else self.r.randint(2, 3)
        xs = [self.star_or_expr(depth, named_ok=False) if allow_star else self.expr(depth, TEST) for _ in range(n)]
        if n == 1 and xs[0].startswith("*"):
            return xs[0] + ","
        return ", ".join(xs) + ("," if self.p(.1) else "")

    # ------------------------------------------------------------------ parameters
    def params(self, depth, annotations=True):
        r = self.r
        pool = [n for n in NAMES]
        r.shuffle(pool)
        it = iter(pool)

        def par(star=""):
            s = star + next(it)
            if annotations and self.p(.3):
                s += ": " + (("*" + self.name()) if star == "*" and self.p(.2) else self.expr(depth + 1, TEST))
            return s
        out = []
        need_default = False

        def maybe_default(s, force=False):
            nonlocal need_default
            if force or need_default or self.p(.3):
                need_default = True
                return s + ("=" if not annotations or ":" not in s else " = ") + self.expr(depth + 1, TEST)
            return s
        npos = r.choice([0, 0, 1, 2])
        if npos:
            for _ in range(npos):
                out.append(maybe_default(par()))
            out.append("/")
        for _ in range(r.choice([0, 1, 1, 2, 3])):
            out.append(maybe_default(par()))
        k = r.randrange(6)
        if k == 0:
            out.append(par("*"))
        if k in (0, 1):
            if k == 1:
                out.append("*")
            nk = r.randint(1, 3) if k == 1 else r.randint(0, 2)
            for _ in range(nk):
                s = par()
                if self.p(.5):
                    s += ("=" if ":" not in s else " = ") + self.expr(depth + 1, TEST)
                out.append(s)
        if self.p(.2):
            out.append(par("**"))
        if out and out[-1] not in ("/",) and self.p(.1):
            return ", ".join(out) + ","
        return ", ".join(out)

    # ------------------------------------------------------------------ patterns
    def pattern(self, depth, top=False):
        r = self.r
        d = depth + 1
        k = r.randrange(16)
        if depth >= 3:
            k = r.randrange(6)
        if k == 0:
            return self.ch(["_", "x", "y", "name", "match", "case", "type"])
        if k == 1:
            s = self.ch(["0", "1", "-1", "1.5", "-2.5", "1j", "-1j", "1+2j", "3 - 4.5j", "-1 - 2j", "0x10", "10_000"])
            return s
        if k == 2:
            s, _ = self.plain_string()
            if self.p(.2):
                s2, b2 = self.plain_string()
                if b2 == _:
                    s += " " + s2
            return s
        if k == 3:
            return self.ch(["None", "True", "False"])
        if k == 4:
            return self.ch(["a.b", "a.b.c", "x.match", "Color.RED", "é.f"])
        if k == 5:
            return self.ch(["_", "x"])
        if k == 6:
            inner = [self.pattern(d) for _ in range(r.randint(2, 3))]
            return " | ".join("(" + p + ")" if (" as " in p) else p for p in inner)
        if k == 7:
            p = self.pattern(d)
            if " as " in p or "|" in p and self.p(.5):
                p = "(" + p + ")"
            return p + " as " + self.ch(["n", "m", "match", "case_", "é"])
        if k in (8, 9):
            n = r.randrange(0, 4)
            items = []
            star = False
            for _ in range(n):
                if not star and self.p(.2):
                    items.append("*" + self.ch(["_", "rest", "xs"]))
                    star = True
                else:
                    items.append(self.pattern(d))
            if k == 8:
                return "[" + ", ".join(items) + ("," if items and self.p(.2) else "") + "]"
            return "(" + ", ".join(items) + ("," if len(items) == 1 or (items and self.p(.2)) else "") + ")"
        if k == 10:
            n = r.randrange(0, 3)
            items = []
            keys = ["'k'", "1", "a.b", "None", "-1", "b'x'", "True", "1+2j", '"x" "y"']
            r.shuffle(keys)
            for i in range(n):
                items.append(keys[i] + ": " + self.pattern(d))
            if self.p(.3):
                items.append("**" + self.ch(["rest", "kw"]))
            return "{" + ", ".join(items) + ("," if items and self.p(.15) else "") + "}"
        if k in (11, 12):
            cls = self.ch(["C", "a.B", "int", "str", "m.n.O", "match", "type"])
            args = [self.pattern(d) for _ in range(r.randrange(0, 3))]
            kws = []
            nm = ["x", "y", "z", "match"]
            r.shuffle(nm)
            for i in range(r.randrange(0, 3)):
                kws.append(nm[i] + "=" + self.pattern(d))
            allp = args + kws
            return cls + "(" + ", ".join(allp) + ("," if allp and self.p(.15) else "") + ")"
        if k == 13:
            return "(" + self.pattern(d) + ")"
        if k == 14 and top:
            items = [self.pattern(d) for _ in range(r.randint(1, 3))]
            if self.p(.3):
                items.insert(r.randrange(len(items) + 1), "*" + self.ch(["_", "rest"]))
            return ", ".join(items) + ("," if len(items) == 1 or self.p(.2) else "")
        return self.ch(["x", "_"])

    # ------------------------------------------------------------------ statements
    def block(self, ind, depth, ctx):
        n = 1 if self.p(.6) else self.r.randint(2, 3)
        out = []
        for _ in range(n):
            out.extend(self.stmt(ind, depth, ctx))
        return out

    def suite(self, ind, depth, ctx, header):
        """header ends without colon; returns lines for `header:` + body, sometimes on one line."""
        if self.p(.15):
            simple = "; ".join(self.simple_stmt(depth, ctx) for _ in range(1 if self.p(.7) else 2))
            return [ind + header + ": " + simple + (";" if self.p(.1) else "")]
        width = self.ch(["    ", "    ", "  ", "\t", " ", "        "])
        if width == "\t" and ind.strip("\t"):
            width = "    "  # a tab after a space inside indentation is outside the property's quantifier
        return [ind + header + ":"] + self.block(ind + width, depth + 1, ctx)

    def type_params(self, depth):
        ps = []
        names = ["T", "K", "V", "Ts", "P", "match", "type", "Ü"]
        self.r.shuffle(names)
        for i in range(self.r.randint(1, 3)):
            k = self.r.randrange(5)
            if k < 3:
                s = names[i]
                if self.p(.4):
                    s += ": " + (self.expr(depth + 1, TEST) if self.p(.6) else "(int, str)")
            elif k == 3:
                s = "*" + names[i]
            else:
                s = "**" + names[i]
            ps.append(s)
        return "[" + ", ".join(ps) + ("," if self.p(.1) else "") + "]"

    def simple_stmt(self, depth, ctx):
        r = self.r
        k = r.randrange(34)
        d = depth + 1
        if k < 6:
            return self.exprlist(d)
        if k < 10:
            n = 1 if self.p(.8) else 2
            return " = ".join(self.target_list(d) for _ in range(n)) + " = " + (self.exprlist(d) if self.p(.8) else "yield " + self.exprlist(d))
        if k < 12:
            t = self.ch([self.name(), self.primary(d) + "." + self.ch(ATTRS), self.primary(d) + "[" + self.slices(d) + "]"])
            return t + " " + self.ch(AUGOPS) + " " + (self.exprlist(d, allow_star=False) if self.p(.9) else "yield")
        if k < 14:
            t = self.ch([self.name(), self.name() + "." + self.ch(ATTRS), self.name() + "(" + self.call_args(d) + ")[" + self.slices(d) + "]", self.name() + "[" + self.slices(d) + "]." + self.ch(ATTRS), "(" + self.name() + ")"])
            s = t + ": " + self.expr(d, TEST)
            if self.p(.6):
                s += " = " + self.exprlist(d, allow_star=self.p(.2))
            return s
        if k == 14:
            return "pass"
        if k == 15:
            return "del " + self.target_list(d).replace("*", "")
        if k == 16:
            return self.ch(["return", "return " + self.exprlist(d)])
        if k == 17:
            return self.ch(["raise", "raise " + self.expr(d, TEST), "raise " + self.expr(d, TEST) + " from " + self.expr(d, TEST)])
        if k == 18:
            return "break" if "loop" in ctx and self.p(.9) else "pass"
        if k == 19:
            return "continue" if "loop" in ctx and self.p(.9) else "pass"
        if k == 20:
            mods = [self.ch(["a", "os", "a.b", "a.b.c", "match", "type.case", "é"]) + (" as " + self.name() if self.p(.3) else "") for _ in range(r.randint(1, 3))]
            return "import " + ", ".join(mods)
        if k in (21, 22):
            dots = self.ch(["", "", ".", "..", "...", "....", ". .", ".. ."])
            mod = self.ch(["a", "a.b", "os.path", "match", "__future__"]) if (not dots or self.p(.6)) else ""
            if not dots and not mod:
                mod = "a"
            if self.p(.15):
                names = "*"
            else:
                items = [self.name() + (" as " + self.name() if self.p(.3) else "") for _ in range(r.randint(1, 3))]
                names = ", ".join(items)
                if self.p(.3):
                    names = "(" + names + ("," if self.p(.3) else "") + ")"
            return "from " + dots + (" " if dots and mod and self.p(.2) else "") + mod + " import " + names
        if k == 23:
            return "global " + ", ".join(self.name() for _ in range(r.randint(1, 2)))
        if k == 24:
            return "nonlocal " + ", ".join(self.name() for _ in range(r.randint(1, 2)))
        if k == 25:
            return "assert " + self.expr(d, TEST) + (", " + self.expr(d, TEST) if self.p(.4) else "")
        if k == 26:
            return self.ch(["yield", "yield " + self.exprlist(d), "yield from " + self.expr(d, TEST)])
        if k == 27:
            return self.ch(["await " + self.primary(d), self.string(d), self.number(), "..."])
        if k == 28 and self.pep695:
            return "type " + self.ch(["X", "Alias", "match", "type", "case"]) + (self.type_params(d) if self.p(.6) else "") + " = " + self.expr(d, TEST)
        if k == 29:
            # soft keywords in statement-leading positions
            kw = self.ch(["match", "case", "type"])
            return self.ch([kw + " = " + self.expr(d, TEST), kw + "(" + self.call_args(d) + ")", kw + "." + self.ch(ATTRS) + " = 1",
                            kw + "[" + self.slices(d) + "]", kw + " " + self.ch(["+", "-", "*", "in", "is", "and", "if x else", "@"]) + " " + self.expr(d, OR),
                            kw + ", " + self.name() + " = 1, 2", kw, "print(" + kw + ")", kw + " += 1", kw + ": int = 1" if kw == "type" else kw + " |= 1",
                            kw + " [" + self.name() + "]", kw + " (" + self.name() + ")", kw + " -" + self.name(), kw + " *" + self.name() + ", " + self.name() if False else kw + " * " + self.name()])
        return self.exprlist(d)

    def stmt(self, ind, depth, ctx):
        r = self.r
        if depth >= self.max_depth or self.p(.45):
            n = 1 if self.p(.85) else r.randint(2, 3)
            return [ind + "; ".join(self.simple_stmt(depth, ctx) for _ in range(n)) + (";" if self.p(.05) else "")]
        k = r.randrange(20)
        d = depth + 1
        out = []
        if k < 3:
            out += self.suite(ind, depth, ctx, "if " + self.expr(d, NAMED))
            for _ in range(r.choice([0, 0, 1, 2])):
                out += self.suite(ind, depth, ctx, "elif " + self.expr(d, NAMED))
            if self.p(.4):
                out += self.suite(ind, depth, ctx, "else")
            return out
        if k == 3:
            out += self.suite(ind, depth, ctx | {"loop"}, "while " + self.expr(d, NAMED))
            if self.p(.3):
                out += self.suite(ind, depth, ctx, "else")
            return out
        if k in (4, 5):
            a = "async " if (k == 5 and self.p(.5)) else ""
            out += self.suite(ind, depth, ctx | {"loop"}, a + "for " + self.target_list(d) + " in " + self.exprlist(d))
            if self.p(.3):
                out += self.suite(ind, depth, ctx, "else")
            return out
        if k in (6, 7):
            star = "*" if self.p(.25) else ""
            out += self.suite(ind, depth, ctx, "try")
            nh = r.choice([0, 1, 1, 2])
            if star and nh == 0:
                nh = 1
            for i in range(nh):
                h = "except" + star
                if star or self.p(.8) or i < nh - 1:
                    h += " " + self.expr(d, TEST)
                    if self.p(.5):
                        h += " as " + self.name()
                out += self.suite(ind, depth, ctx, h)
            if nh and self.p(.3):
                out += self.suite(ind, depth, ctx, "else")
            if nh == 0 or self.p(.3):
                out += self.suite(ind, depth, ctx, "finally")
            return out
        if k in (8, 9):
            a = "async " if (k == 9 and self.p(.5)) else ""
            items = []
            for _ in range(r.randint(1, 3)):
                it = self.expr(d, TEST)
                if self.p(.5):
                    it += " as " + self.target(d).lstrip("*")
                items.append(it)
            s = ", ".join(items)
            if self.p(.25):
                s = "(" + s + ("," if self.p(.4) else "") + ")"
            return self.suite(ind, depth, ctx, a + "with " + s)
        if k in (10, 11, 12):
            for _ in range(r.choice([0, 0, 1, 2])):
                out.append(ind + "@" + self.expr(d, NAMED))
            a = "async " if self.p(.2) else ""
            tp = self.type_params(d) if self.pep695 and self.p(.4) else ""
            h = a + "def " + self.name() + tp + "(" + self.params(d) + ")"
            if self.p(.3):
                h += " -> " + self.expr(d, TEST)
            out += self.suite(ind, depth, {"def"} | ({"async"} if a else set()), h)
            return out
        if k in (13, 14):
            for _ in range(r.choice([0, 0, 1])):
                out.append(ind + "@" + self.expr(d, NAMED))
            tp = self.type_params(d) if self.pep695 and self.p(.4) else ""
            h = "class " + self.name() + tp
            if self.p(.6):
                h += "(" + self.call_args(d, genexp_ok=False) + ")"
            out += self.suite(ind, depth, set(), h)
            return out
        if k in (15, 16, 17):
            subj = self.ch([self.exprlist(d), self.expr(d, NAMED), self.name() + ",", "*" + self.name() + ", " + self.name(), self.name()])
            width = self.ch(["    ", "  ", "\t"])
            if width == "\t" and ind.strip("\t"):
                width = "  "
            out.append(ind + "match " + subj + ":")
            for _ in range(r.randint(1, 3)):
                h = "case " + self.pattern(0, top=True)
                if self.p(.3):
                    h += " if " + self.expr(d, NAMED)
                out += self.suite(ind + width, depth + 1, ctx, h)
            return out
        return [ind + self.simple_stmt(depth, ctx)]

    def module(self, nstmts=None):
        n = nstmts or self.r.randint(1, 6)
        lines = []
        for _ in range(n):
            lines += self.stmt("", 0, set())
        return "\n".join(lines) + "\n"
