"""CLI: python3 -m mon {setup | check <ID> [--tier quick|thorough] [--seed N] | replay <file>}"""
import importlib
import os
import sys
import time

from . import core


def _ensure_reference_interpreter():
    """The reference oracle is CPython 3.11. If `python3` resolves to another version (e.g. a conda base environment
    first on PATH), re-exec under a 3.11 interpreter when one is installed; otherwise the check reports inconclusive."""
    if sys.version_info[:2] == (3, 11) or os.environ.get("MON_REEXEC"):
        return
    import glob
    import shutil
    cands = [shutil.which("python3.11"), "/usr/bin/python3.11", "/usr/bin/python3"] + sorted(glob.glob("/root/.pyenv/versions/3.11.*/bin/python3"), reverse=True)
    for c in cands:
        if not c or not os.path.exists(c):
            continue
        try:
            import subprocess
            v = subprocess.run([c, "-c", "import sys;print(sys.version_info[:2])"], capture_output=True, text=True, timeout=20).stdout.strip()
        except Exception:
            continue
        if v == "(3, 11)":
            env = dict(os.environ, MON_REEXEC="1")
            os.execve(c, [c, "-m", "mon"] + sys.argv[1:], env)


def main(argv):
    _ensure_reference_interpreter()
    if not argv:
        print(__doc__)
        return 2
    cmd = argv[0]
    if cmd == "setup":
        t0 = time.time()
        core.build_parallel(list(core.VARIANTS))
        print("setup: built %d variants in %.0fs" % (len(core.VARIANTS), time.time() - t0))
        return 0
    if cmd == "check":
        pid = argv[1]
        tier, seed = core.tier_seed()
        if "--tier" in argv:
            tier = argv[argv.index("--tier") + 1]
        if "--seed" in argv:
            seed = int(argv[argv.index("--seed") + 1])
        try:
            mod = importlib.import_module("mon.checks.%s" % pid.lower())
        except Exception as e:   # a broken check module is a defect of the machinery: never exit 1
            import traceback
            traceback.print_exc()
            print("INCONCLUSIVE property=%s the check could not be loaded: %s: %s" % (pid, type(e).__name__, str(e)[:200]))
            return core.EXIT_INCONCLUSIVE
        res = core.Result(pid, tier, seed)
        try:
            core.require_reference()
            mod.run(res)
        except core.Inconclusive as e:
            res.inconclusive.append(str(e))
        except (core.HarnessDied, core.OpPanicked, RuntimeError) as e:
            for part in getattr(e, "partial", []):
                if isinstance(part, core.Result):
                    res.merge(part)
            if isinstance(e, core.HarnessDied):
                res.inconclusive.append("harness process died unexpectedly: %s %s" % (e, e.stderr[-300:]))
            elif isinstance(e, core.OpPanicked):
                if e.in_library():
                    res.add("unlisted:panic", {"op": e.op, "args": e.opargs, "panic": e.msg, "loc": e.loc},
                            {"op": e.op, "args": e.opargs, "payload_hex": e.payload.hex()})
                else:
                    res.inconclusive.append("harness defect: %s" % e)
            else:
                import traceback
                traceback.print_exc()
                res.inconclusive.append("monitor error: %s: %s" % (type(e).__name__, str(e)[:300]))
        except core.HarnessDied as e:
            res.inconclusive.append("harness process died unexpectedly: %s %s" % (e, e.stderr[-300:]))
        except core.OpPanicked as e:
            if e.in_library():
                res.add("unlisted:panic", {"op": e.op, "args": e.opargs, "panic": e.msg, "loc": e.loc},
                        {"op": e.op, "args": e.opargs, "payload_hex": e.payload.hex()})
            else:
                res.inconclusive.append("harness defect: %s" % e)
        except Exception as e:  # a defect of the machinery itself is never a verdict on the code
            import traceback
            traceback.print_exc()
            res.inconclusive.append("monitor error: %s: %s" % (type(e).__name__, str(e)[:300]))
        try:
            return core.finish(res, level=getattr(mod, "LEVEL", "exploration"))
        except Exception as e:   # reporting must not turn a defect of the machinery into exit 1
            import traceback
            traceback.print_exc()
            print("INCONCLUSIVE property=%s monitor error while reporting: %s: %s" % (pid, type(e).__name__, str(e)[:200]))
            return core.EXIT_INCONCLUSIVE
    if cmd == "survey":
        # dev helper: class histogram of observations without writing evidence
        import collections, json
        pid = argv[1]
        tier, seed = core.tier_seed()
        if "--tier" in argv:
            tier = argv[argv.index("--tier") + 1]
        if "--seed" in argv:
            seed = int(argv[argv.index("--seed") + 1])
        mod = importlib.import_module("mon.checks.%s" % pid.lower())
        res = core.Result(pid, tier, seed)
        mod.run(res)
        c = collections.Counter(o.cls for o in res.obs)
        known = core.load_findings()
        for cls, n in c.most_common():
            exs = [o for o in res.obs if o.cls == cls][:int(os.environ.get("NEX", "2"))]
            print(n, cls, "(known)" if (pid, cls) in known else "")
            for o in exs:
                print("     ", json.dumps(core._jsonable(o.detail), ensure_ascii=False)[:300])
                if os.environ.get("WIT"):
                    print("      W:", json.dumps(core._jsonable(o.witness), ensure_ascii=False)[:int(os.environ["WIT"])])
        print(dict(res.counters))
        print({k: (v if not isinstance(v, (dict, list, set, collections.Counter)) else len(v)) for k, v in res.cover.items()})
        print("evaluations", res.evaluations, "distinct", len(res.distinct), "inconclusive", res.inconclusive, "wall %.1f" % (time.time() - res.t0))
        return 0
    if cmd == "replay":
        import json
        w = json.load(open(argv[1]))
        mod = importlib.import_module("mon.checks.%s" % w["property"].lower())
        return mod.replay(w)
    print(__doc__)
    return 2


if __name__ == "__main__":
    sys.exit(main(sys.argv[1:]))
