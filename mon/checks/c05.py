"""C05: the token stream tiles the source.

Invariant monitor over (Tok, range) lists and the source bytes, written without reference to the lexer: ordering,
bounds, character boundaries, gap language, token spelling / value, NEWLINE vs bracket depth, INDENT/DEDENT balance and
placement; with full-lexer every comment and non-logical newline must be a token (second opinion: CPython tokenize).
"""
import re
import token as T
from collections import Counter

from .. import core, derive, layout, treework as tw

VARIANTS = ["deflt", "fulllex"]

SP = {'Lpar': '(', 'Rpar': ')', 'Lsqb': '[', 'Rsqb': ']', 'Colon': ':', 'Comma': ',', 'Semi': ';', 'Plus': '+', 'Minus': '-',
      'Star': '*', 'Slash': '/', 'Vbar': '|', 'Amper': '&', 'Less': '<', 'Greater': '>', 'Equal': '=', 'Dot': '.', 'Percent': '%',
      'Lbrace': '{', 'Rbrace': '}', 'EqEqual': '==', 'NotEqual': '!=', 'LessEqual': '<=', 'GreaterEqual': '>=', 'Tilde': '~',
      'CircumFlex': '^', 'LeftShift': '<<', 'RightShift': '>>', 'DoubleStar': '**', 'DoubleStarEqual': '**=', 'PlusEqual': '+=',
      'MinusEqual': '-=', 'StarEqual': '*=', 'SlashEqual': '/=', 'PercentEqual': '%=', 'AmperEqual': '&=', 'VbarEqual': '|=',
      'CircumflexEqual': '^=', 'LeftShiftEqual': '<<=', 'RightShiftEqual': '>>=', 'DoubleSlash': '//', 'DoubleSlashEqual': '//=',
      'ColonEqual': ':=', 'At': '@', 'AtEqual': '@=', 'Rarrow': '->', 'Ellipsis': '...'}
KW = 'False None True And As Assert Async Await Break Class Continue Def Del Elif Else Except Finally For From Global If Import In Is Lambda Nonlocal Not Or Pass Raise Return Try While Match Type Case With Yield'.split()
KWSP = {k: (k if k in ("False", "None", "True") else k.lower()) for k in KW}
ALL_KINDS = set(SP) | set(KW) | {"Name", "Int", "Float", "Complex", "String", "Newline", "Indent", "Dedent"}
GAP = re.compile(rb"(?:[ \t\x0c]|#[^\r\n]*|\\(?:\r\n|\r|\n)|\r\n|\r|\n)*")
GAP_FULL = re.compile(rb"(?:[ \t\x0c]|\\(?:\r\n|\r|\n))*")
STR_RE = re.compile(r"(?s)^([rRbBuUfF]{0,2})('''|\"\"\"|'|\")(.*)\2$")
KIND_OF_PREFIX = {"": "String", "u": "Unicode", "b": "Bytes", "r": "RawString", "f": "FString", "rb": "RawBytes", "br": "RawBytes", "rf": "RawFString", "fr": "RawFString"}


def _num(payload, key):
    from ..pyref import num
    return num(payload[key])


def check_tokens(res, b, toks, full, wit, kinds):
    """toks: [[kind, s, e, payload]...] of a text that lexed without error."""
    n = len(b)
    pos = 0
    depth = 0
    indents = 0
    prev = None   # previous non-trivia token kind
    gap_re = GAP_FULL if full else GAP

    def bad(what, detail):
        res.add("unlisted:" + what, detail, wit)

    for i, (kind, s, e, payload) in enumerate(toks):
        kinds[kind] += 1
        if not (0 <= s <= e <= n):
            bad("token-outside-input", {"tok": kind, "range": [s, e], "len": n})
            return
        if (s < n and (b[s] & 0xC0) == 0x80) or (e < n and (b[e] & 0xC0) == 0x80):
            bad("token-off-char-boundary", {"tok": kind, "range": [s, e]})
        if s < pos:
            bad("token-overlap-or-order", {"tok": kind, "range": [s, e], "prev_end": pos})
            return
        gap = b[pos:s]
        if pos == 0 and gap.startswith(b"\xef\xbb\xbf"):
            gap = gap[3:]   # a leading BOM is layout
        if not gap_re.fullmatch(gap):
            bad("gap-not-trivia", {"before": kind, "gap": gap[:60].decode("utf-8", "replace"), "at": pos})
        text = b[s:e].decode("utf-8", "replace")
        if kind in SP:
            if text != SP[kind]:
                bad("operator-spelling", {"tok": kind, "text": text, "at": s})
        elif kind in KWSP:
            if text != KWSP[kind]:
                bad("keyword-spelling", {"tok": kind, "text": text, "at": s})
        elif kind == "Name":
            if payload.get("name") != text:
                bad("name-value", {"value": payload.get("name"), "text": text, "at": s})
        elif kind == "Int":
            try:
                t = text.replace("_", "")
                v = int(t, 0) if not re.fullmatch(r"0+[0-9]*", t) else int(t)
                if _num(payload, "value") != v:
                    bad("int-value", {"value": str(payload), "text": text})
            except ValueError:
                bad("int-text", {"text": text})
        elif kind == "Float":
            try:
                v = float(text.replace("_", ""))
                got = _num(payload, "value")
                if float(got) != v and not (v != v):
                    bad("float-value", {"value": str(payload), "text": text})
            except ValueError:
                bad("float-text", {"text": text})
        elif kind == "Complex":
            try:
                v = complex(text.replace("_", ""))
                if float(_num(payload, "real")) != v.real or float(_num(payload, "imag")) != v.imag:
                    bad("complex-value", {"value": str(payload), "text": text})
            except ValueError:
                bad("complex-text", {"text": text})
        elif kind == "String":
            raw = b[s:e].decode("utf-8", "surrogateescape")
            m = STR_RE.match(raw)
            if not m:
                bad("string-does-not-cover-prefix-and-quotes", {"text": raw[:60], "at": s})
            else:
                prefix, quote, inner = m.group(1).lower(), m.group(2), m.group(3)
                want_kind = KIND_OF_PREFIX.get(prefix)
                got_kind = payload.get("kind", "")[1:] if isinstance(payload.get("kind"), str) else None
                if want_kind != got_kind:
                    bad("string-kind", {"prefix": prefix, "kind": got_kind, "at": s})
                if payload.get("triple_quoted") != (len(quote) == 3):
                    bad("string-triple-flag", {"quote": quote, "flag": payload.get("triple_quoted"), "at": s})
                folded = inner.replace("\r\n", "\n").replace("\r", "\n")
                if payload.get("value") != folded and payload.get("value") != folded.encode("utf-8", "surrogateescape").decode("utf-8", "replace"):
                    bad("string-value-not-inner-text", {"value": (payload.get("value") or "")[:60], "inner": folded[:60], "at": s})
        elif kind == "Newline":
            if depth != 0:
                bad("newline-inside-brackets", {"at": s, "depth": depth})
            if text not in ("\n", "\r", "\r\n", ""):
                bad("newline-text", {"text": text, "at": s})
            if text == "" and e != n:
                bad("empty-newline-not-at-end", {"at": s})
        elif kind == "NonLogicalNewline":
            if text not in ("\n", "\r", "\r\n"):
                bad("nl-text", {"text": text, "at": s})
        elif kind == "Comment":
            if payload["_a"][0] != text or not text.startswith("#") or "\n" in text or "\r" in text:
                bad("comment-text", {"value": payload["_a"][0][:60], "text": text[:60], "at": s})
        elif kind == "Indent":
            if text.strip(" \t\x0c") != "":
                bad("indent-text", {"text": text[:40], "at": s})
        elif kind == "Dedent":
            if s != e:
                bad("dedent-not-empty", {"range": [s, e]})
        else:
            bad("unknown-token-kind", {"tok": kind})
        if kind in ("Lpar", "Lsqb", "Lbrace"):
            depth += 1
        elif kind in ("Rpar", "Rsqb", "Rbrace"):
            depth -= 1
        if kind == "Indent":
            indents += 1
        elif kind == "Dedent":
            indents -= 1
            if indents < 0:
                bad("dedent-without-indent", {"at": s})
        if kind in ("Indent", "Dedent") and prev not in (None, "Newline", "Indent", "Dedent"):
            bad("indent-dedent-not-at-logical-line-start", {"prev": prev, "tok": kind, "at": s})
        if kind in ("Indent", "Dedent") and depth != 0:
            bad("indent-dedent-inside-brackets", {"at": s})
        if kind not in ("Comment", "NonLogicalNewline"):
            prev = kind
        pos = e
    if not gap_re.fullmatch(b[pos:] if pos or not b.startswith(b"\xef\xbb\xbf") else b[3:]):
        bad("tail-gap-not-trivia", {"gap": b[pos:pos + 60].decode("utf-8", "replace")})
    if indents != 0:
        bad("indent-dedent-unbalanced", {"open": indents})


BACKSLASH_ONLY_LINE = re.compile(r"(?m)^[ \t]*\\$")


def check_full_against_tokenize(res, text, b, toks, wit):
    """Second opinion for comments / non-logical newlines: CPython tokenize (only for LF-only, form-feed free text)."""
    if "\r" in text or "\x0c" in text or text.startswith("﻿"):
        return
    if BACKSLASH_ONLY_LINE.search(text):
        # the tokenize module is not the tokenizer: it takes a physical line of blanks and a backslash for the start of a
        # statement (INDENT, then NEWLINE at the end of the joined empty line); the compiler's tokenizer, the reference of
        # C01/C08, joins it onto the next line and sees a blank line. No second opinion for such texts.
        res.counters["tokenize second opinion skipped (backslash-only line)"] += 1
        return
    pt = derive.tokens(text)
    if not pt:
        return
    lines = text.split("\n")
    starts = [0]
    for ln in lines:
        starts.append(starts[-1] + len(ln.encode("utf-8", "surrogatepass")) + 1)

    def off(pos):
        r, c = pos
        if r - 1 >= len(lines):
            return len(b)
        return starts[r - 1] + len(lines[r - 1][:c].encode("utf-8", "surrogatepass"))
    want_c = [(off(t.start), off(t.end)) for t in pt if t.type == T.COMMENT]
    got_c = [(s, e) for k, s, e, p in toks if k == "Comment"]
    res.counters["comments-checked"] += len(want_c)
    if want_c != got_c:
        miss = sorted(set(want_c) - set(got_c))[:3]
        extra = sorted(set(got_c) - set(want_c))[:3]
        res.add("unlisted:comment-tokens-differ-from-tokenize", {"missing": miss, "extra": extra}, wit)
    want_nl = [off(t.start) for t in pt if t.type == T.NL and t.string]
    got_nl = [s for k, s, e, p in toks if k == "NonLogicalNewline"]
    res.counters["nl-checked"] += len(want_nl)
    if want_nl != got_nl:
        res.add("unlisted:non-logical-newlines-differ-from-tokenize", {"missing": sorted(set(want_nl) - set(got_nl))[:3], "extra": sorted(set(got_nl) - set(want_nl))[:3]}, wit)


def _work(st, batch):
    res = core.Result("C05", "", 0)
    kinds = {v: Counter() for v in VARIANTS}
    for tag, text, mode in batch:
        b = text.encode("utf-8", "surrogatepass")
        streams = {}
        for v in VARIANTS:
            rep = st[v].json("lex", [mode, 0], text)
            if "toks" in rep and not rep.get("capped"):
                streams[v] = ([t for t in rep["toks"] if t[0] not in ("Comment", "NonLogicalNewline")], rep["err"])
            wit = {"op": "lex", "variant": v, "mode": mode, "text": text, "tag": tag}
            if "panic" in rep:
                res.add("unlisted:panic", rep, wit)
                continue
            if rep["err"] is not None or rep["capped"]:
                res.counters["lex-error (outside the property)"] += 1
                continue
            res.seen(v + "\0" + mode + "\0" + text, nontrivial=len(rep["toks"]) > 1)
            res.counters["tokens:" + v] += len(rep["toks"])
            check_tokens(res, b, rep["toks"], v == "fulllex", wit, kinds[v])
            if v == "fulllex":
                check_full_against_tokenize(res, text, b, rep["toks"], wit)
        if len(streams) == len(VARIANTS) and len(VARIANTS) > 1:
            # the two configurations are two views of one token sequence: same kinds, same ranges, same payloads, same error
            a, c = streams[VARIANTS[0]], streams[VARIANTS[1]]
            res.counters["streams compared across lexer configurations"] += 1
            if a != c:
                k = next((i for i, (x, y) in enumerate(zip(a[0], c[0])) if x != y), min(len(a[0]), len(c[0])))
                res.add("unlisted:token-streams-differ-between-lexer-configurations", {"first_difference": k, VARIANTS[0]: a[0][k:k + 2], VARIANTS[1]: c[0][k:k + 2], "errors": [a[1], c[1]]},
                        {"op": "lex", "variants": VARIANTS, "mode": mode, "text": text, "tag": tag})
        if len(res.samples) < 2 and len(text) < 200:
            res.sample({"tag": tag, "text": text})
    for v in VARIANTS:
        res.cover["token_kinds:" + v] = kinds[v]
    return res


def deep_indent(levels, unit="  "):
    lines = []
    for i in range(levels):
        lines.append(unit * i + "if x:")
    lines.append(unit * levels + "pass")
    for i in range(levels - 1, 0, -3):
        lines.append(unit * i + "y = %d" % i)
    return "\n".join(lines) + "\n"


def workload(res):
    thorough = res.tier == "thorough"
    seed = res.seed
    rng = core.rng_for(seed, "c05")
    progs = tw.corpus_programs(seed, 2500 if thorough else 150) + tw.generated_programs(seed, 15000 if thorough else 2500)
    from .. import pep695
    for i in range(seed * 1000, seed * 1000 + (2000 if thorough else 500)):
        built = pep695.build(i)
        if built:
            progs.append(("pep695:%d" % i, built[0]))
    items = []
    for tag, text in progs:
        items.append((tag, text, "exec"))
        if len(text) < 80000:
            for k in range(2 if thorough else 1):
                new, applied = layout.compose(text, rng)
                if new is not None:
                    items.append(("layout:%s:%s" % ("+".join(applied), tag), new, "exec"))
            new = derive.subst_ops(text, rng, 0.7)
            if new:
                items.append(("ops:" + tag, new, "exec"))
    for tag, text in tw.generated_expressions(seed, 4000 if thorough else 2000):
        items.append((tag, text, "eval"))
    from .. import numlits
    for i, prog in enumerate(numlits.as_programs(numlits.boundary_literals(rng, thorough))):
        items.append(("numlits:%d" % i, prog, "exec"))
    # every character on its own and between two names: whatever this lexer makes a token of (it takes characters with emoji
    # presentation for names, for one) must get a range that spells it; texts that do not lex are outside the property
    cps = list(range(0, 0x250)) + list(range(0x2000, 0x3400, 1 if thorough else 3)) + list(range(0x1F000, 0x1FB00, 1 if thorough else 3))
    cps += list(range(0x250, 0x2000, 1 if thorough else 41)) + list(range(0x3400, 0x1F000, 7 if thorough else 211)) + list(range(0x1FB00, 0x30000, 7 if thorough else 509))
    cps += [0xE0001, 0xE0100, 0xF0000, 0x10FFFF, 0xFE0F, 0x200D, 0xFEFF, 0xFFFD, 0x1F1E6, 0x1F3FB]
    for cp in cps:
        if 0xD800 <= cp <= 0xDFFF:
            continue
        ch = chr(cp)
        items.append(("char:%04x" % cp, "a %s b\n" % ch, "exec"))
        items.append(("char-alone:%04x" % cp, ch, "exec"))
        if cp % 5 == 0:
            items.append(("char-glued:%04x" % cp, "(%s%s,%s)\n" % (ch, ch, ch), "eval"))
    # token soup: texts that need not be programs, only lex
    alphabet = list(SP.values()) + list(KWSP.values()) + ["x", "é", "名", "_1", "match", "case", "type", "0", "1.5", "0x_f", "1e-3", "2j", "'s'", 'b"b"', "f'{x}'", "r'\\'",
                                                           "\U0001F600", "\u231A", "\u2614", "\U0001F9E0", "# c", "\\\n", "\n", "\n  ", "\n\t", " ", "  ", "\x0c"]
    for i in range(6000 if thorough else 800):
        toks = [rng.choice(alphabet) for _ in range(rng.randint(1, 12))]
        items.append(("soup:%d" % i, rng.choice(["", " "]).join(toks) + rng.choice(["", "\n"]), "exec"))
    for lv in (1, 10, 100, 200):
        items.append(("deep-indent:%d" % lv, deep_indent(lv), "exec"))
        items.append(("deep-indent-tabs:%d" % lv, deep_indent(lv, "\t"), "single"))
    return items


def run(res):
    bins = core.build(VARIANTS)
    items = workload(res)
    core.rng_for(res.seed, "shuffle").shuffle(items)
    parts = core.pmap(_work, tw.batches(items, 20), init=tw.init_state, initargs=(bins,))
    for p in parts:
        res.merge(p)
    for v in VARIANTS:
        seen = set(res.cover.get("token_kinds:" + v, {}))
        want = ALL_KINDS | ({"Comment", "NonLogicalNewline"} if v == "fulllex" else set())
        missing = sorted(want - seen)
        res.cover["token_kinds_missing:" + v] = missing
        if missing:
            res.inconclusive.append("token kinds never produced in %s: %s" % (v, missing))
    res.rule = ("texts that lex without error: corpus, generated programs and expressions, their layout rewrites (tabs, form feeds, "
                "CR/CRLF, BOM, continuations, comments, re-indentation), operator substitutions and 200-level indentation, in the "
                "default and the full-lexer configuration; every token of every text is checked; a case is (configuration, mode, text)")
    res.assumptions = ["spelling tables and gap language in mon/checks/c05.py are the specification", "CPython tokenize as second opinion for comments / NL"]


def replay(w):
    bins = core.build(VARIANTS)
    st = tw.State(bins)
    wi = w["witness"]
    res = _work(st, [(wi.get("tag", "replay"), wi["text"], wi.get("mode", "exec"))])
    for o in res.obs:
        print(o.cls, o.detail)
    return 1 if res.obs else 0
