"""C07: f-strings decompose into the reference literal parts and replacement fields.

Differential oracle on f-string-heavy programs (generated bodies x single/triple x raw/non-raw x concatenation x
newline styles x surrounding context, plus every f-string of the library corpus); inner expression ranges are checked
by slice-reparse (the expression's own text in the enclosing file).
"""
import re
from collections import Counter

from .. import core, gen, pyref, treework as tw
from . import c02

VARIANT = "full"


def fstring_programs(seed, n):
    out = []
    for i in range(n):
        rng = core.rng_for(seed, "c07", i)
        g = gen.Gen(rng, max_depth=rng.choice([1, 2, 2, 3]))
        lits = []
        for _ in range(rng.randint(1, 4)):
            k = rng.random()
            if k < .7:
                lits.append(g.fstring(0))
            elif k < .85:
                lits.append(g.plain_string(allow_bytes=False)[0])
            else:
                lits.append(rng.choice(["u'a'", "''", "'%s'", "r'\\d'", "'{'", "'}}'", "'é'"]))
        if not any(l.lstrip("rRuU")[:1] in "fF" for l in lits):
            lits[0] = g.fstring(0)
        joined = rng.choice([" ", "  ", ""]).join(lits)
        ctx = rng.randrange(7)
        if ctx == 0:
            text = "x = " + joined + "\n"
        elif ctx == 1:
            text = "é = 'ü日本'; y = (" + joined + ")\n"
        elif ctx == 2:
            text = "def f():\n    return g(" + joined + ", k=" + g.fstring(0) + ")\n"
        elif ctx == 3:
            text = "class C:\n\t  z = [\n" + joined + ",\n]\n"
        elif ctx == 4:
            text = "# 日本語 comment\nif " + joined + ":\n    pass\nelse:\n    " + g.fstring(0) + "\n"
        elif ctx == 5:
            text = "print(" + "\n  ".join(lits) + ")\n"
        else:
            text = joined + "\n"
        nl = rng.choice(["\n", "\n", "\r\n", "\r"])
        if nl != "\n":
            text = text.replace("\n", nl)
        if rng.random() < .1:
            text = "﻿" + text
        out.append(("fgen:%d:%d" % (seed, i), text))
    return out


DIRECTED = [
    "f'{x}'", "f'{x!r}'", "f'{x!s:>10}'", "f'{x!a:{w}}'", "f'{x=}'", "f'{x = }'", "f'{x=!s}'", "f'{x=:>5}'", "f'{ x+1 = !r:^{w}}'", "f'{{}}'", "f'{{{x}}}'", "f'a{{b}}{c}d'",
    "rf'\\n{x}\\d'", "Rf'{x:\\d}'", "f'\\N{BULLET}{x}'", "f'{x}' 'b'", "'a' f'{x}'", "f'{x}' f'{y}'", "u'a' f'{x}'", "f'{x:{y}{z}}'", "f'{x:a{y}b}'", "f'{a != b}'", "f'{a!=b!r}'",
    "f'{(lambda x: x)(1)}'", "f'{(y := 2)}'", "f'{x[\"k\"]}'", "f\"{x['k']}\"", "f'{ {1: 2}[1] }'", "f'{x:%Y-%m-%d}'", "f'{x::}'", "f'{x:!r}'", "f'{\"a\" \"b\"}'", "f'''{x\n}'''",
    "f'''a\n{x}\nb'''", "f'{x:\\n}'", "f'{x:\\x41}'", "f'{x:{y=}}'", "f'{x=:{y}}'", "f'{f\"{x}\"}'", "f'{x,}'", "f'{*x, y}'", "f'{x for x in y}'" if False else "f'{[x for x in y]}'",
    "f'{await x}'", "f'{(yield)}'", "f'{x.y().z[0]}'", "f'{-x}'", "f'{not x}'", "f'{a if b else c}'", "f'{a < b}'", "f'{a >= b}'", "f'{a == b}'", "f'{x}\\\n{y}'", "f'\\{x}'", "f'{x}\\\\'",
    "f''", "f'' f''", "f'{x}' ''", "'' f'{x}'", "f'é{é}日'", "f'𝄞{x}'", "f'{x!r}{y!s}{z!a}'", "f'{x:>{w}.{p}f}'", "f'{x:{w!r}}'", "f'{x:{\"a\"}}'", "f'{\"}\"}'", "f'{\"{\"}'", "f'{\":\"}'",
]


def check_program(h, res, tag, text, shapes):
    try:
        tree, L = pyref.py_parse(text, "exec")
    except pyref.PyReject:
        res.counters["reference-rejects"] += 1
        return
    if tw.excluded_reason(tree, text):
        res.counters["excluded"] += 1
        return
    pt = pyref.pnode(tree, L)
    nfs = sum(1 for n, p, f in pyref.walk(pt) if n["_t"] == "JoinedStr")
    if not nfs:
        res.counters["no-fstring"] += 1
        return
    b = text.encode("utf-8", "surrogatepass")
    rep = h.json("parse", ["exec", 0], text)
    res.seen(text)
    wit = {"op": "parse", "mode": "exec", "text": text, "tag": tag}
    if "panic" in rep:
        res.add("unlisted:panic", rep, wit)
        return
    if "ok" not in rep:
        res.add(tw.classify_reject(text, "exec", rep, pt), {"err": rep.get("err"), "offset": rep.get("offset"), "near": b[max(0, rep.get("offset", 0) - 30):rep.get("offset", 0) + 30].decode("utf-8", "replace")}, wit)
        return
    rt = pyref.rust_tree(rep["ok"])
    d = pyref.Diff(b, check_ranges=True)
    d.go(rt, pt)
    res.counters["fstrings-compared"] += nfs
    for cls, path, a, bb in d.tree[:10]:
        if cls.startswith("fstring") or cls.startswith("string-kind") or (cls.startswith("unlisted") and ("JoinedStr" in path or "FormattedValue" in path)):
            res.add(cls, {"path": re.sub(r"\[\d+\]", "[]", path)[-80:], "rust": a, "reference": bb}, wit)
        else:
            res.counters["tree difference outside f-strings (C01's business): " + cls] += 1
    # ranges of expressions inside replacement fields: the expression's own text
    known_nodes = {}
    for cls, path, rr, pr, summ, rn, rp in d.ranges:
        if rr is not None and not cls.startswith("unlisted"):
            known_nodes[(summ.split("@")[0], rr[0], rr[1])] = cls
    crlf = [n["_r"] for n, p, f in pyref.walk(rt) if n["_t"] == "JoinedStr" and n.get("_r") and b"\r\n" in b[n["_r"][0]:n["_r"][1]]]

    def inner(node, parent, field, inside):
        if inside and node["_t"] in pyref.EXPR_KINDS and node.get("_r") is not None and not (parent["_t"] in ("JoinedStr",) or (parent["_t"] == "FormattedValue" and field == "format_spec")):
            probe = core.Result("C07", "", 0)
            c02.slice_reparse(h, probe, node, parent, field, b, wit, known_nodes, (), crlf)
            res.counters["inner-expression-ranges-checked"] += 1
            for o in probe.obs:
                cls = o.cls if not o.cls.startswith("unlisted") else "unlisted:range:" + o.cls.replace("unlisted:", "")
                r = node["_r"]
                if node["_t"] == "Tuple" and parent["_t"] == "FormattedValue" and field == "value" and b[r[0]:r[0] + 1] == b"{":
                    cls = "fstring-field-bare-tuple-range-includes-braces"
                res.add(cls, o.detail, wit)
        for k, v in pyref.children(node):
            kids = v if isinstance(v, list) else [v]
            for c in kids:
                if pyref.is_node(c):
                    inner(c, node, k, inside or (node["_t"] == "FormattedValue" and k == "value"))
    inner(rt, None, None, False)
    for n, p, f in pyref.walk(pt):
        if n["_t"] == "FormattedValue":
            shapes["conversion:%s spec:%s" % (n["conversion"], "nested" if n["format_spec"] and any(x["_t"] == "FormattedValue" for x in n["format_spec"]["values"]) else ("plain" if n["format_spec"] else "none"))] += 1


def _work(st, batch):
    res = core.Result("C07", "", 0)
    shapes = Counter()
    for tag, text in batch:
        check_program(st[VARIANT], res, tag, text, shapes)
        if len(res.samples) < 2 and len(text) < 200:
            res.sample({"tag": tag, "text": text})
    res.cover["field_shapes"] = shapes
    return res


def run(res):
    thorough = res.tier == "thorough"
    bins = core.build([VARIANT])
    items = fstring_programs(res.seed, 250000 if thorough else 15000)
    for i, lit in enumerate(DIRECTED):
        for pre, post in (("x = ", "\n"), ("é = [", ",\n]\n"), ("def f():\n\treturn ", "\n")):
            items.append(("directed:%d" % i, pre + lit + post))
            if "'''" in lit or '"""' in lit:
                items.append(("directed-crlf:%d" % i, (pre + lit + post).replace("\n", "\r\n")))
    for tag, text in tw.corpus_programs(res.seed, 3000 if thorough else 400):
        if re.search(r"""\b[rR]?[fF][rR]?['"]""", text):
            items.append((tag, text))
    parts = core.pmap(_work, tw.batches(items, 40), init=tw.init_state, initargs=(bins,))
    for p in parts:
        res.merge(p)
    res.rule = ("f-string literals from the generator (text, escapes, doubled braces, fields with arbitrary expressions incl. nested quotes, lambdas, walrus, !=, "
                "conversions, specs with nested fields, '=' forms) x single/triple x raw/non-raw x concatenation with plain/u/f literals x LF/CRLF/CR x seven surrounding "
                "contexts (multi-byte text before, indentation, BOM), %d directed forms, and every f-string of the sampled library files; only programs the reference "
                "accepts; a case is one program text" % len(DIRECTED))
    res.assumptions = ["CPython 3.11 (pre-PEP 701) ast is the reference for the decomposition", "inner expression ranges: the expression's own text (slice-reparse), since the reference's f-string locator is unreliable"]


def replay(w):
    bins = core.build([VARIANT])
    st = tw.State(bins)
    r = _work(st, [(w["witness"].get("tag", "replay"), w["witness"]["text"])])
    for o in r.obs:
        print(o.cls, o.detail)
    return 1 if r.obs else 0
