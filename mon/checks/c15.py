"""C15 position primitives: in-process monitor (harness op `pos`) comparing
LineIndex / SourceCode / newline iterators / TextRange with a naive model."""
from .. import core, sanitize

VARIANT = "deflt-chk"


def _run_shard(st, job):
    h = st
    return job, h.json("pos", job)


def _init(binary):
    return core.Harness(binary)


def run(res):
    bins = core.build([VARIANT, "deflt"])
    thorough = res.tier == "thorough"
    maxlen = 7 if thorough else 6
    jobs = []
    for n in range(0, maxlen + 1):
        shards = 1 if n < 5 else (16 if n < 7 else 64)
        for s in range(shards):
            jobs.append(("exhaustive", n, s, shards, 0))
    for k in range(16 if thorough else 8):
        jobs.append(("random", res.seed * 1000 + k, 4000 if thorough else 800, 200 if k % 2 else 40, 0))
    jobs.append(("ranges", 7 if thorough else 6, res.seed))
    out = core.pmap(_run_shard, jobs, init=_init, initargs=(bins[VARIANT],))
    # range algebra once more in the plain release build: the documented panics must not depend on debug assertions
    rel = core.Harness(bins["deflt"])
    try:
        rjob = ("ranges", 7 if thorough else 6, res.seed + 1)
        out.append((rjob, rel.json("pos", rjob)))
    finally:
        rel.close()
    texts = queries = 0
    for job, r in out:
        texts += r["texts"]
        queries += r["queries"]
        res.evaluations += r["queries"]
        for s in r["samples"]:
            res.sample({"text": s})
        for m in r["shown"]:
            res.add("unlisted:" + m["what"], m, {"op": "pos", "args": list(job), "text": m["text"]})
        if r["mismatches"] > len(r["shown"]):
            res.counters["mismatches_not_shown"] += r["mismatches"] - len(r["shown"])
        res.distinct.add(repr(job).encode())
    # the same model comparison with the memory-safety instrumentation on (find_newline's get_unchecked, the
    # char-boundary arithmetic of the column computation): valgrind memcheck always, Miri in the thorough tier
    import json
    for tool, args in (("valgrind", ["exhaustive", 5, res.seed % 16, 16, 0]), ("valgrind", ["random", res.seed, 300, 120, 0])) + \
            ((("miri", ["exhaustive", 3, 0, 1, 0]), ("miri", ["random", res.seed, 12, 60, 0])) if thorough else ()):
        got = sanitize.batch_under_tools(res, bins, "pos", args, b"", tools=(tool,), variant=VARIANT, what="pos " + " ".join(map(str, args)))[tool]
        if got:
            try:
                r = json.loads(got.strip().split("\n")[-1])
            except ValueError:
                res.inconclusive.append("%s run of pos produced no report" % tool)
                continue
            res.cover["queries_under_" + tool] = res.cover.get("queries_under_" + tool, 0) + r["queries"]
            for m in r["shown"]:
                res.add("unlisted:" + m["what"], m, {"op": "pos", "args": args, "text": m["text"], "tool": tool})
    # distinct = distinct texts checked (each text is a different case)
    res.cover["texts_checked"] = texts
    res.cover["queries_checked"] = queries
    res.cover["exhaustive_alphabet"] = ["\\n", "\\r", "a", "é", "𝄞", "(optional leading BOM)"]
    res.cover["exhaustive_max_len"] = maxlen
    res.distinct = set(range(texts))  # every generated text is distinct by construction (enumeration / seeded)
    res.exhaustive = False
    res.rule = ("every text over {LF,CR,a,é,𝄞} up to length %d with and without a leading BOM (exhaustive), seeded random texts "
                "to 200 symbols, all range pairs with endpoints <= %d and sampled endpoints near 2^32; for each text every "
                "character-boundary offset, every line, all 2^m next/next_back interleavings (m<=6 lines) are compared with a "
                "character-by-character model; a case is one text (all non-trivial: each has at least one query)" % (maxlen, 7 if thorough else 6))
    res.assumptions = ["naive model in harness/src/ops_pos.rs is the specification", "debug-assertions + overflow-checks build"]


def replay(w):
    bins = core.build([VARIANT])
    h = core.Harness(bins[VARIANT])
    r = h.json("pos", ["text", 0], w["witness"]["text"])
    print(r)
    return 1 if r["mismatches"] else 0
