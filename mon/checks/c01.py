"""C01: every valid program parses to the reference AST (CPython 3.11 `ast`, PEP 695 by erasure).

Monitor: differential oracle at the API boundary. For every text the reference accepts (and that is inside the
property's quantifier) `parse` in module, interactive and expression mode must succeed and give the canonical tree the
reference gives. Ranges are C02's business and are ignored here.
"""
import re
from collections import Counter

from .. import core, derive, pep695, pyref, treework as tw

VARIANT = "full"


def _check_one(h, res, tag, text, mode, kinds, placements):
    try:
        tree, L = pyref.py_parse(text, mode)
    except pyref.PyReject:
        res.counters["reference-rejects:" + tag.split(":")[0]] += 1
        return
    why = tw.excluded_reason(tree, text)
    if why:
        res.counters["excluded:" + why] += 1
        return
    pt = pyref.pnode(tree, L)
    res.counters["reference-accepts:" + tag.split(":")[0]] += 1
    modes = [mode] if mode == "eval" else ["exec", "single"]
    for m in modes:
        rep = h.json("parse", [m, 0], text)
        res.seen(m + "\0" + text, nontrivial=len(text) > 4)
        wit = {"op": "parse", "mode": m, "text": text, "tag": tag}
        if "panic" in rep:
            res.add("unlisted:panic", rep, wit)
            continue
        if "ok" not in rep:
            cls = tw.classify_reject(text, m, rep, pt)
            res.add(cls, {"err": rep.get("err"), "offset": rep.get("offset"), "near": text.encode()[max(0, rep.get("offset", 0) - 30):rep.get("offset", 0) + 30].decode("utf-8", "replace")}, wit)
            continue
        rt = pyref.rust_tree(rep["ok"])
        if m == "single":
            if rt["_t"] != "Interactive":
                res.add("unlisted:interactive-root", rt["_t"], wit)
                continue
            rt = {"_t": "Module", "_r": rt.get("_r"), "body": rt["body"], "type_ignores": []}
        d = pyref.Diff(text.encode("utf-8", "surrogatepass"), check_ranges=False)
        d.go(rt, pt)
        res.counters["nodes-compared"] += d.nodes
        for cls, path, a, b in d.tree[:20]:
            res.add(cls, {"path": re.sub(r"\[\d+\]", "[]", path)[-90:], "rust": a, "reference": b}, wit)
    tw.node_kinds(pt, kinds)
    tw.softkw_placements(pt, placements)


def _work(st, batch):
    h = st[VARIANT]
    res = core.Result("C01", "", 0)
    kinds, placements = Counter(), Counter()
    h.call("stats", ["reset"])
    for tag, text, mode in batch:
        if tag.startswith("pep695:"):
            pep695.check_program(h, res, tag, text, kinds)
            continue
        _check_one(h, res, tag, text, mode, kinds, placements)
        if len(res.samples) < 2 and len(text) < 300:
            res.sample({"tag": tag, "mode": mode, "text": text})
    res.cover["node_kinds"] = kinds
    res.cover["soft_keyword_placements"] = placements
    res.cover["reduce_hits"] = Counter({i: n for i, n in enumerate(h.json("stats")["reduce"]) if n})
    return res


def workload(res):
    thorough = res.tier == "thorough"
    seed = res.seed
    items = []
    progs = tw.corpus_programs(seed, 4000 if thorough else 600)
    items += [(t, s, "exec") for t, s in progs]
    gens = tw.generated_programs(seed, 40000 if thorough else 8000)
    items += [(t, s, "exec") for t, s in gens]
    items += [(t, s, "eval") for t, s in tw.generated_expressions(seed, 20000 if thorough else 6000)]
    rng = core.rng_for(seed, "derive")
    # an expression with something after it: line breaks, comments, joined empty lines, blanks, form feeds (expression mode
    # is the only place where the grammar sees several consecutive newline tokens)
    tails = ["\n", "\n\n", "\n\n\n", "\n\\\n\n", "\n\\\n\\\n\n", "  # c", "\n# c\n", "\n  \n", "\n\x0c\n", " \\\n", " \\\n\n", "\n\\\n\n\\\n\n", "\r\n\r\n", "\r\r", "\n \\\n\n", ";", "\n;"]
    exprs = tw.generated_expressions(seed + 7919, 600 if thorough else 120)
    for k, (t, s_) in enumerate(exprs):
        if "\n" in s_:
            continue
        for tail in ([tails[k % len(tails)], rng.choice(tails)] if not thorough else tails):
            items.append(("eval-tail:%s:%r" % (t, tail), s_ + tail, "eval"))
    # W3a: soft keywords at every identifier position of real programs
    small = [p for p in progs if len(p[1]) < 60000]
    rng.shuffle(small)
    for tag, text in small[:(1500 if thorough else 120)] + gens[:(4000 if thorough else 300)]:
        for new, info in derive.rename_soft(text, rng, 3 if thorough else 2):
            items.append(("softkw:%s:%s->%s" % (tag, info[0], info[1]), new, "exec"))
    # W3c: operator substitution
    for tag, text in small[:(1500 if thorough else 120)] + gens[:(4000 if thorough else 300)]:
        new = derive.subst_ops(text, rng)
        if new:
            items.append(("ops:" + tag, new, "exec"))
    # W3d: the same programs in other layouts (a valid program stays valid however it is saved): every newline style, and
    # seeded compositions of the layout rewrites; the reference tree is computed for the rewritten text itself
    from .. import layout
    for tag, text in small[:(1200 if thorough else 150)] + gens[:(6000 if thorough else 900)]:
        if "\r" in text or len(text) > 20000:
            continue
        style = rng.choice(["crlf", "cr", "mixed"])
        items.append(("nl-%s:%s" % (style, tag), layout.newline_style(text, rng, style), "exec"))
        new, names = layout.compose(text, rng)
        if new is not None and pyref.tab_after_space_lines(new) <= pyref.tab_after_space_lines(text):
            items.append(("layout:%s:%s" % ("+".join(names), tag), new, "exec"))
    # W3b: PEP 695 by erasure
    items += [("pep695:%d" % i, "", "exec") for i in range(seed * 100000, seed * 100000 + (6000 if thorough else 1500))]
    return items


def run(res):
    bins = core.build([VARIANT])
    items = workload(res)
    rng = core.rng_for(res.seed, "shuffle")
    rng.shuffle(items)
    parts = core.pmap(_work, tw.batches(items, 40), init=tw.init_state, initargs=(bins,))
    for p in parts:
        res.merge(p)
    prods = tw.production_names()
    hits = res.cover.pop("reduce_hits", Counter())
    res.cover["productions_total"] = len(prods)
    res.cover["productions_reduced"] = len([i for i in hits if i in prods])
    res.cover["productions_never_reduced"] = ["%d: %s" % (i, prods[i]) for i in sorted(set(prods) - set(hits))]
    acc = sum(v for k, v in res.counters.items() if k.startswith("reference-accepts:"))
    rej = sum(v for k, v in res.counters.items() if k.startswith("reference-rejects:"))
    res.cover["reference_acceptance_rate"] = round(acc / max(1, acc + rej), 4)
    res.cover["node_kinds_seen"] = len(res.cover.get("node_kinds", {}))
    res.rule = ("programs: committed corpus + seeded sample of the interpreter's library + grammar-directed generator + "
                "soft-keyword renames + operator substitutions + PEP 695 insertions (erasure oracle); only texts the reference "
                "accepts and that are inside the quantifier count; each is parsed in module and interactive mode (expressions in "
                "expression mode) and the canonical trees compared field by field; a case is (mode, text), distinct by hash, "
                "non-trivial when longer than 4 bytes")
    res.assumptions = ["CPython 3.11 ast is the reference", "Debug rendering of the tree is faithful (generic converter)",
                       "PEP 695 reference built by erasure (mon/pep695.py)"]
    missing = sorted((pyref.STMT_KINDS | pyref.EXPR_KINDS | pyref.PATTERN_KINDS | {"TypeVar", "TypeVarTuple", "ParamSpec", "arguments", "arg", "keyword", "alias", "withitem", "match_case", "comprehension", "ExceptHandler"}) - set(res.cover.get("node_kinds", {})))
    res.cover["node_kinds_missing"] = missing
    if missing:
        res.inconclusive.append("node kinds never observed: %s" % missing)


def replay(w):
    bins = core.build([VARIANT])
    h = core.Harness(bins[VARIANT])
    wi = w["witness"]
    res = core.Result("C01", "replay", 0)
    if wi.get("tag", "").startswith("pep695:"):
        pep695.check_program(h, res, wi["tag"], "", Counter())
    else:
        _check_one(h, res, wi.get("tag", "replay"), wi["text"], "eval" if wi["mode"] == "eval" else "exec", Counter(), Counter())
    for o in res.obs:
        print(o.cls, o.detail)
    return 1 if res.obs else 0
