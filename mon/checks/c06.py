"""C06: string, bytes and numeric literals decode to their Python values.

Differential oracle on literal-only modules: thousands of literals per parse request, values compared with the
reference tree (ints exact, floats by bit pattern, bytes, text with the documented surrogate rule).
"""
import itertools
import re
import struct
import unicodedata
from collections import Counter

from .. import core, pyref, treework as tw

VARIANT = "full"
PREFIXES_TEXT = ["", "u", "U", "r", "R", "f", "F", "rf", "fr", "Rf", "fR", "rF", "Fr", "RF", "FR"]
PREFIXES_BYTES = ["b", "B", "rb", "br", "Rb", "bR", "rB", "Br", "RB", "BR"]
QUOTES = ["'", '"', "'''", '"""']


def literals(res):
    thorough = res.tier == "thorough"
    rng = core.rng_for(res.seed, "c06")
    L = []
    add = L.append
    # one-character escapes x literal kinds
    chars = [chr(c) for c in range(32, 127)] + ["é", "\t", "日"]
    for c in chars:
        for p in ["", "b", "r", "rb", "u", "f", "B", "Rb", "fR"]:
            for qt in ("'", '"'):
                if c == qt or (c in "{}" and "f" in p.lower()):
                    continue
                if "b" in p.lower() and not c.isascii():
                    continue
                add("%s%s\\%s%s" % (p, qt, c, qt))
                add("%s%sa\\%sz%s" % (p, qt, c, qt))
    # octal
    for n in range(1, 4):
        for ds in itertools.product("01234567", repeat=n):
            o = "".join(ds)
            if int(o, 8) > 0o377 and n == 3:
                add("'\\%s'" % o)       # > 255: text only (bytes: error)
                continue
            add("'\\%s'" % o)
            add("b'\\%s'" % o)
            add("'\\%s7'" % o)
            add("'\\%s8'" % o)
    # hex
    for v in range(256):
        add("'\\x%02x'" % v)
        add("b'\\x%02X'" % v)
        add("'\\x%02xa'" % v)
    for bad in ("'\\x4'", "'\\xg1'", "b'\\x'", "'\\x'"):
        add(bad)
    # \u, \U
    step = 1 if thorough else 4
    for v in range(res.seed % step, 0x10000, step):
        add("'\\u%04x'" % v)
    for v in [0, 0x7f, 0x80, 0xff, 0x100, 0x7ff, 0x800, 0xd7ff, 0xd800, 0xdbff, 0xdc00, 0xdfff, 0xe000, 0xfffd, 0xfffe, 0xffff]:
        add("'\\u%04X'" % v)
        add("'a\\u%04xb'" % v)
        add("b'\\u%04x'" % v)
        add("r'\\u%04x'" % v)
    for v in [0, 0x41, 0xffff, 0x10000, 0x1f600, 0x10ffff, 0x110000, 0xd800, 0xdfff, 0xe0001, 0xfffff, 0x100000] + [rng.randrange(0x110000) for _ in range(30000 if thorough else 300)]:
        add("'\\U%08x'" % v)
        add("b'\\U%08x'" % v)
    if thorough:
        for v in range(0, 0x110000):
            add("'\\U%08x'" % v)
    else:
        # every plane start/end, the 16-bit patterns that look like surrogates in every plane, power-of-two neighbours
        for plane in range(0, 17):
            for lo in (0, 1, 0xd7ff, 0xd800, 0xdbff, 0xdc00, 0xdfff, 0xe000, 0xfffe, 0xffff):
                add("'\\U%08x'" % (plane * 0x10000 + lo))
        for k in range(0, 21):
            for d in (-1, 0, 1):
                add("'\\U%08x'" % max(0, 2 ** k + d))
    add("'\\U0001F60'")
    add("'\\u123'")
    # \N{name}
    cps = [0x41, 0xe9, 0x2022, 0x3042, 0x1f600, 0x20ac, 0x5d0, 0x10ffff, 0x0, 0x7f, 0xa0] + [rng.randrange(0x30000) for _ in range(60000 if thorough else 2500)]
    for cp in cps:
        try:
            nm = unicodedata.name(chr(cp))
        except ValueError:
            continue
        add("'\\N{%s}'" % nm)
        if rng.random() < .1:
            add("'\\N{%s}'" % nm.lower())
            add("b'\\N{%s}'" % nm)
            add("'x\\N{%s}\\N{%s}y'" % (nm, nm))
    # the extremes of the name table: the longest and the shortest names, names with digits / hyphens, name aliases
    import unicodedata as _ud
    named = []
    for cp in range(0x110000):
        try:
            named.append((_ud.name(chr(cp)), cp))
        except ValueError:
            pass
    named.sort(key=lambda x: (len(x[0]), x[0]))
    picks = named[:60] + named[-(300 if thorough else 120):] + [x for x in named if "-" in x[0] and any(c.isdigit() for c in x[0])][:: (7 if thorough else 97)]
    if thorough:
        picks = named   # every named code point
    for nm, cp in picks:
        add("'\\N{%s}'" % nm)
    for alias in ("LF", "NUL", "NULL", "LINE FEED", "LATIN CAPITAL LETTER GHA", "BYTE ORDER MARK", "ZWNBSP", "VS17", "KEYCAP DIGIT ONE", "HANGUL SYLLABLE GAG", "CJK UNIFIED IDEOGRAPH-4E00", "CJK UNIFIED IDEOGRAPH-20000"):
        add("'\\N{%s}'" % alias)
    for bad in ("'\\N'", "'\\N{'", "'\\N{}'", "'\\N{NOT A NAME}'", "'\\N{LATIN SMALL LETTER A'", "'\\N{latin small letter a}'", "'\\N{LF}'", "'\\N{LINE FEED}'", "'\\N{NULL}'"):
        add(bad)
    # backslash-newline and raw newlines
    for nl in ("\n", "\r", "\r\n"):
        for p in ("", "b", "r", "f", "rb"):
            add("%s'a\\%sb'" % (p, nl))
            add('%s"""a\\%sb"""' % (p, nl))
            add("%s'''a%sb%s%sc'''" % (p, nl, nl, nl))
            add("%s'''%s'''" % (p, nl))
            add('%s"""a%s  \\%s"""' % (p, nl, nl))
    # prefixes x quotes
    for p in PREFIXES_TEXT + PREFIXES_BYTES + ["ur", "bu", "fb", "bf", "uf", "rr", "ff", "bb", "rbr"]:
        for qt in QUOTES:
            body = "a\\n\\\\b%s" % ("'" if qt[0] == '"' else '"')
            add(p + qt + body + qt)
            add(p + qt + qt)
    # triple quoted containing quotes
    for p in ("", "r", "b", "f"):
        add(p + "'''a'b''c\"\"\"d'''")
        add(p + '"""a"b""c\'\'\'d"""')
        add(p + "'''\\''''")
        add(p + '"""\\""""')
        add(p + "'''a\\'''b'''")
    # implicit concatenation
    pool_t = ["'a'", '"b"', "'''c'''", "r'\\n'", "u'd'", "U'e'", "'\\x41'", "'é'", "''", "'\\ud800'", "f'{x}'", "f'q'", "rf'\\d{y}'", "'\\N{BULLET}'"]
    pool_b = ["b'a'", 'B"b"', "rb'\\n'", "b'\\x00\\xff'", "b''", "bR'''c'''"]
    for n in (2, 3, 4):
        for _ in range(15000 if thorough else 700):
            add(" ".join(rng.choice(pool_t) for _ in range(n)))
            add(rng.choice([" ", "  ", "\t"]).join(rng.choice(pool_b) for _ in range(n)))
    add("'a' b'b'")
    add("b'a' 'b'")
    add("b'a' f'{x}'")
    add("b'\\xe9' b'é'")
    add("b'é'")
    # numbers
    digs = ["0", "1", "7", "9", "10", "42", "255", "1_0", "1__0", "_1", "1_", "00", "007", "0_0", "09", "0_9", "1_000_000", "123456789" * 5]
    for d in digs:
        add(d)
        add(d + ".")
        add(d + ".5")
        add(d + "e1")
        add(d + "j")
        add(d + ".e2j")
    for base, alphabet in (("0x", "0123456789abcdefABCDEF"), ("0o", "01234567"), ("0b", "01"), ("0X", "0123456789abcdef"), ("0O", "01234567"), ("0B", "01")):
        for _ in range(400 if thorough else 80):
            n = rng.randint(1, 40)
            s = "".join(rng.choice(alphabet) for _ in range(n))
            add(base + s)
            if n > 2:
                i = rng.randrange(1, n)
                add(base + s[:i] + "_" + s[i:])
            add(base + "_" + s)
        for bad in ("", "_", "g", "8" if base.lower() == "0o" else "2" if base.lower() == "0b" else "x", "1_", "1__1"):
            add(base + bad)
    for k in (31, 32, 63, 64, 127, 128, 1000, 4000):
        for d in (-1, 0, 1):
            add(str(2 ** k + d))
            add(hex(2 ** k + d))
            add(bin(2 ** k + d))
            add(oct(2 ** k + d))
    # every digit count up to 70 in every radix, with every leading digit and the extreme / a random tail: a machine-word
    # fast path or a digit-count estimate goes wrong at one specific length and leading digit
    for prefix, alphabet in (("", "0123456789"), ("0x", "0123456789abcdef"), ("0o", "01234567"), ("0b", "01"), ("0X", "0123456789ABCDEF")):
        for n in range(1, 71):
            for lead in alphabet[1:]:
                tails = [alphabet[0] * (n - 1), alphabet[-1] * (n - 1)]
                if thorough or n in (16, 19, 20, 21, 22, 32, 33, 43, 64, 65):
                    tails.append("".join(rng.choice(alphabet) for _ in range(n - 1)))
                for tail in tails:
                    add(prefix + lead + tail)
                    if prefix == "" and lead in "19":
                        add(lead + tail + "j")
    for k in range(0, 400 if thorough else 60, 1 if thorough else 3):
        add("1" + "0" * k)
        add("9" * (k + 1))
    floats = ["1.0", "1.", ".1", "0.1", "1e0", "1E0", "1e+0", "1e-0", "1.5e300", "1e308", "1e309", "1.7976931348623157e308", "1.7976931348623159e308", "5e-324", "2.5e-324", "2.4e-324", "4.9e-324",
              "2.2250738585072014e-308", "2.2250738585072011e-308", "9007199254740993.0", "9007199254740992.5", "0.1000000000000000055511151231257827021181583404541015625",
              "0.30000000000000004", "1_0.0_1e1_0", "1e1_0", "1._5", "1_.5", "1e_5", "1.e5", ".5e-3", "0e0", "00.5", "09.5e1", "0.0", "000.000", "1e400", "1e-400", "123456789012345678.0", "1.0e+0001",
              "179769313486231580793728971405303415079934132710037826936173778980444968292764750946649017977587207096330286416692887910946555547851940402630657488671505820681908902000708383676273854845817711531764475730270069855571366959622842914819860834936475292719074168444365510704342711559699508093042880177904174497791.9999999999999999999999999999999999999999999999999999999999999999999999"]
    for f in floats:
        add(f)
        add(f + "j")
    # a number written directly against a keyword (`1if x else 2`, `0 if y<1else 2`): the literal ends where the keyword
    # starts; only the forms the reference accepts are kept by the caller
    for num in ["0", "1", "7", "10", "1_0", "00", "0_0", "123456789012345678901234567890", "1.", "1.5", ".5", "1e5", "1E5", "1e-5", "1e+5", "1_0.0_1", "1j", "1.5j", "1e5j", "0x1", "0xa", "0XF", "0o7", "0b1",
                "0x1e", "0b1_0", "5.", "0.", "0e0", "1_0e1_0"]:
        for tpl in ("%sif x else 0", "0 if y<%selse 2", "[%sfor x in y]", "%sor 2", "%sand 2", "%sin y", "%sis y", "%sis not y", "%snot in y", "[0][%sif x else 0]"):
            add(tpl % num)
    # digits-only literals (integer and imaginary) at the rounding boundaries of the double format: 2^53 neighbours,
    # halfway points between adjacent doubles of every magnitude, and the overflow threshold DBL_MAX + half an ulp
    import sys as _sys
    dmax = int(_sys.float_info.max)
    half = 2 ** 970
    edge = [dmax + d for d in (-1, 0, 1, 2, half - 1, half, half + 1, 2 * half - 1, 2 * half, 2 * half + 1)] + [10 ** 308, 10 ** 309 - 1, 2 ** 1024 - 1, 2 ** 1024, 2 ** 1024 + 1]
    for k in (53, 54, 60, 63, 64, 80, 100, 200, 500, 1000, 1023):
        ulp = 2 ** (k - 52)
        for d in (-1, 0, 1):
            edge += [2 ** k + d, 2 ** k + ulp // 2 + d, 2 ** k + ulp + ulp // 2 + d, 2 ** k + 3 * ulp + ulp // 2 + d]
    for _ in range(600 if thorough else 150):
        k = rng.randint(53, 1023)
        ulp = 2 ** (k - 52)
        edge.append(2 ** k + rng.randrange(0, 2 ** 52) * ulp + ulp // 2 + rng.choice([-1, 0, 1]))
    for v in edge:
        add(str(v))
        add(str(v) + "j")
        add(str(v) + "J")
        add(str(v) + ".0")
        add(str(v) + "e0j")
    for _ in range(400000 if thorough else 12000):
        b = rng.getrandbits(64)
        f = struct.unpack("<d", struct.pack("<Q", b))[0]
        if f == f and abs(f) != float("inf"):
            s = repr(abs(f))
            add(s)
            if rng.random() < .2:
                # same value with more digits / halfway perturbations
                add(("%.30e" % abs(f)))
                add(("%.17g" % abs(f)))
    for _ in range(100000 if thorough else 3000):
        m = "".join(rng.choice("0123456789") for _ in range(rng.randint(1, 25)))
        i = rng.randint(0, len(m))
        add(m[:i] + "." + m[i:] + rng.choice(["", "e%d" % rng.randint(-340, 310), "E+%d" % rng.randint(0, 30), "j"]))
    return L


def accepted(lit):
    try:
        pyref.py_parse(lit, "eval")
        return True
    except pyref.PyReject:
        return False


def _work(st, batch):
    res = core.Result("C06", "", 0)
    h = st[VARIANT]
    lits = [l for l in batch if accepted(l) and not l.rstrip().endswith("\\")]
    res.counters["reference-rejects"] += len(batch) - len(lits)
    if not lits:
        return res
    # every literal as its own expression statement inside brackets (so embedded newlines stay inside one statement)
    text = "".join("(" + l + ")\n" for l in lits)
    try:
        pt = pyref.py_tree(text, "exec")
    except pyref.PyReject:
        res.inconclusive.append("reference rejects a module of individually accepted literals")
        return res
    rep = h.json("parse", ["exec", 0], text)
    if "ok" not in rep:
        # bisect to the single literals the parser rejects
        for l in lits:
            r1 = h.json("parse", ["eval", 0], l)
            res.seen(l)
            if "ok" not in r1:
                res.add(classify_reject(l, r1), {"literal": l[:100], "err": r1.get("err") or r1.get("panic")}, {"op": "parse", "mode": "eval", "text": l})
            else:
                d = pyref.compare(r1["ok"], l, "eval", check_ranges=False)
                for cls, path, a, b in d.tree[:3]:
                    res.add(cls, {"literal": l[:100], "rust": a, "reference": b}, {"op": "parse", "mode": "eval", "text": l})
        return res
    rt = pyref.rust_tree(rep["ok"])
    if len(rt["body"]) != len(pt["body"]):
        res.add("unlisted:statement-count", {"rust": len(rt["body"]), "reference": len(pt["body"])}, {"op": "parse", "mode": "exec", "text": text})
        return res
    for l, rs, ps in zip(lits, rt["body"], pt["body"]):
        res.seen(l)
        d = pyref.Diff(text.encode("utf-8", "surrogatepass"), check_ranges=False)
        d.go(rs, ps)
        for cls, path, a, b in d.tree[:3]:
            res.add(cls, {"literal": l[:100], "path": path[-40:], "rust": a, "reference": b}, {"op": "parse", "mode": "eval", "text": l})
        v = ps["value"]
        k = v["_t"] if pyref.is_node(v) else "?"
        if k == "Constant":
            k = type(v["value"]).__name__
        res.counters["kind:" + k] += 1
    res.sample({"literal": lits[len(lits) // 2]})
    return res


def classify_reject(l, rep):
    return "unlisted:rust-rejects-literal"


def run(res):
    bins = core.build([VARIANT])
    L = literals(res)
    seen = set()
    L = [x for x in L if not (x in seen or seen.add(x))]
    parts = core.pmap(_work, tw.batches(L, 400), init=tw.init_state, initargs=(bins,))
    for p in parts:
        res.merge(p)
    res.cover["literals_generated"] = len(L)
    res.rule = ("all one-character escapes x 9 literal kinds, all 1-3 digit octal, all \\xHH, \\uXXXX (all in thorough, every 16th in quick plus boundaries), sampled "
                "\\UXXXXXXXX and \\N{name}, backslash-newline with LF/CR/CRLF, all prefix spellings x quote styles, triple-quoted with every newline style, implicit "
                "concatenation of 2-4 mixed literals; integers in every base with underscores / leading zeros / word-boundary magnitudes, floats from seeded bit patterns "
                "and long digit strings, imaginary literals; only literals the reference accepts count; a case is one literal text")
    res.assumptions = ["CPython 3.11 ast values are the reference (lone surrogates map to U+FFFD as documented)"]


def replay(w):
    bins = core.build([VARIANT])
    st = tw.State(bins)
    r = _work(st, [w["witness"]["text"]])
    for o in r.obs:
        print(o.cls, o.detail)
    return 1 if r.obs else 0
