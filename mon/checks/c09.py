"""C09: start offsets only translate positions; all entry points agree.

Relational monitor over one text: (i) results at start offset k equal results at offset 0 with every range and
error offset moved by k (parse and lex); (ii) every public entry point returns the part of the module / expression
tree the property prescribes.
"""
import json
from collections import Counter

from .. import core, pyref, treework as tw

VARIANTS = ["deflt", "full"]
OFFSETS = [1, 3, 400, 65535, 2 ** 31]


def canon(x):
    return json.dumps(x, sort_keys=True, default=repr)


def tree_of(r, const=False):
    """entry result -> ('ok', canonical tree) | ('err', kind-text, offset) | ('panic', ...)"""
    if "ok" in r and const:
        v = pyref.rconst(r["ok"])
        return ("ok", {"const": repr(v), "type": type(v).__name__})
    if "ok" in r:
        try:
            return ("ok", pyref.rust_tree(r["ok"]))
        except (ValueError, KeyError, TypeError):
            v = pyref.rconst(r["ok"])
            return ("ok", {"const": repr(v), "type": type(v).__name__})
    if "panic" in r:
        return ("panic", r["panic"], r.get("loc"))
    return ("err", r["err"], r["offset"])


def shifted(t, k):
    if t[0] == "ok":
        return ("ok", pyref.shift(t[1], k))
    if t[0] == "err":
        return ("err", t[1], t[2] + k)
    return t


def same(a, b):
    if a[0] != b[0]:
        return False
    if a[0] == "ok":
        return canon(a[1]) == canon(b[1])
    return a[1:] == b[1:]


def summ(t):
    if t[0] == "ok":
        return "ok:" + (t[1]["_t"] if isinstance(t[1], dict) and "_t" in t[1] else type(t[1]).__name__)
    return "%s:%s@%s" % (t[0], str(t[1])[:60], t[2] if len(t) > 2 else "")


def shift_tokens(toks, k):
    return [[a, s + k, e + k, p] for a, s, e, p in toks]


def check_text(st, res, tag, text, rng):
    b = text.encode("utf-8", "surrogatepass")
    n = len(b)
    ks = rng.sample(OFFSETS, 2) + [2 ** 32 - 1 - n]
    for v in VARIANTS:
        h = st[v]
        wit0 = {"op": "entry", "variant": v, "text": text, "tag": tag}
        e0 = {k_: tree_of(r, k_ == "Constant") for k_, r in h.json("entry", [0], text).items()}
        res.seen(v + "\0" + text)
        for name, t in e0.items():
            if t[0] == "panic":
                res.add("unlisted:panic", {"entry": name, "panic": t[1:]}, wit0)
        # ---- (ii) entry points agree (offset 0)
        ex, ev, si = e0["parse:exec"], e0["parse:eval"], e0["parse:single"]

        def agree(a_name, b_name, what):
            if not same(e0[a_name], e0[b_name]):
                res.add("unlisted:entry-points-disagree", {"what": what, a_name: summ(e0[a_name]), b_name: summ(e0[b_name])}, dict(wit0, entries=[a_name, b_name]))
        for m in ("exec", "eval", "single"):
            agree("parse:" + m, "parse_starts_at:" + m, "parse == parse_starts_at(0)")
            agree("parse:" + m, "parse_tokens:" + m, "parse == parse_tokens(lex_starts_at)")
            agree("parse:" + m, "parse_tokens_lex:" + m, "parse == parse_tokens(lex)")

        def body_of(t, kind):
            return ("ok", t[1]["body"]) if t[0] == "ok" and t[1]["_t"] == kind else t
        for name, want in (("ModModule", ex), ("ModInteractive", si), ("ModExpression", ev)):
            got = e0[name]
            if got[0] == "ok" and want[0] == "ok":
                w2 = dict(want[1])
                g2 = dict(got[1])
                w2.pop("_t", None), g2.pop("_t", None)
                if canon(w2) != canon(g2):
                    res.add("unlisted:entry-points-disagree", {"what": name + " vs parse", "got": summ(got), "want": summ(want)}, wit0)
            elif not same(got, want):
                res.add("unlisted:entry-points-disagree", {"what": name + " vs parse", "got": summ(got), "want": summ(want)}, wit0)
        mod_body = body_of(ex, "Module")
        # interactive mode returns the module body
        if not same(body_of(si, "Interactive"), mod_body):
            res.add(classify_interactive(text, si, ex), {"what": "interactive body vs module body", "single": summ(si), "exec": summ(ex)}, wit0)
        for name in ("Suite", "Suite.parse", "Suite.parse_tokens", "parse_program"):
            if not same(e0[name], mod_body):
                res.add("unlisted:entry-points-disagree", {"what": name + " vs module body", "got": summ(e0[name]), "want": summ(mod_body)}, wit0)
        # expression mode = value of the sole expression statement
        if ex[0] == "ok" and len(ex[1]["body"]) == 1 and ex[1]["body"][0]["_t"] == "Expr":
            want_expr = ("ok", ex[1]["body"][0]["value"])
        else:
            want_expr = None
        ev_body = body_of(ev, "Expression")
        if ev[0] == "ok":
            if want_expr is None or not same(ev_body, want_expr):
                res.add(classify_eval(text, ev, ex), {"what": "expression mode vs expression statement", "eval": summ(ev_body), "exec": summ(ex)}, wit0)
        elif want_expr is not None and ev[0] == "err" and _ref_accepts_eval(text):
            res.add(classify_eval(text, ev, ex), {"what": "expression statement not accepted in expression mode", "eval": summ(ev), "stmt": want_expr[1]["_t"]}, wit0)
        for name in ("Expr", "Expr.parse", "Expr.parse_tokens", "Expr.parse_without_path", "parse_expression", "parse_expression_starts_at"):
            if not same(e0[name], ev_body):
                res.add("unlisted:entry-points-disagree", {"what": name + " vs expression mode", "got": summ(e0[name]), "want": summ(ev_body)}, wit0)
        # Stmt
        for name in ("Stmt", "Stmt.parse"):
            got = e0[name]
            if mod_body[0] != "ok":
                want = mod_body
            elif len(mod_body[1]) == 0:
                want = ("err", "Eof", 0)
            elif len(mod_body[1]) == 1:
                want = ("ok", mod_body[1][0])
            else:
                want = ("err", "InvalidToken", mod_body[1][1]["_r"][0])
            if not same(got, want):
                res.add("unlisted:entry-points-disagree", {"what": name, "got": summ(got), "want": summ(want)}, wit0)
        # Identifier / Constant / typed parsers: the corresponding part, or InvalidToken at the node start
        def typed(name, base, pick):
            got = e0[name]
            if base[0] != "ok":
                want = base
            else:
                node = base[1]
                p = pick(node)
                want = ("ok", p) if p is not None else ("err", "InvalidToken", node["_r"][0])
            if not same(got, want):
                res.add("unlisted:typed-parser-disagrees", {"what": name, "got": summ(got), "want": summ(want)}, wit0)
        typed("Identifier", ev_body, lambda n: n["id"] if n["_t"] == "Name" else None)
        cgot = e0["Constant"]
        if cgot[0] == "ok" and not (isinstance(cgot[1], dict) and "const" in cgot[1]):
            cgot = ("ok", {"const": repr(cgot[1]), "type": type(cgot[1]).__name__})
        e0["Constant"] = cgot
        typed("Constant", ev_body, lambda n: {"const": repr(n["value"]), "type": type(n["value"]).__name__} if n["_t"] == "Constant" else None)
        stmt = e0["Stmt"]
        for name, got in e0.items():
            if not name.startswith("typed:"):
                continue
            ty = name[6:]
            if ty.startswith("Stmt"):
                base, kind = stmt, ty[4:]
            else:
                base, kind = ev_body, ty[4:]
            if base[0] != "ok":
                want = base
            elif base[1]["_t"] == kind:
                want = base
            else:
                want = ("err", "InvalidToken", base[1]["_r"][0])
            if got[0] == "ok" and want[0] == "ok":
                g2, w2 = dict(got[1]), dict(want[1])
                g2["_t"] = w2["_t"] = kind
                if kind == "Constant" and "value" in g2:
                    g2["value"], w2["value"] = repr(g2["value"]), repr(w2["value"])
                ok = canon(pyref.post(g2)) == canon(pyref.post(w2))
            else:
                ok = same(got, want)
            if not ok:
                res.add("unlisted:typed-parser-disagrees", {"what": name, "got": summ(got), "want": summ(want)}, wit0)
            res.counters["typed-parser-checks"] += 1
        # ---- (i) offsets only translate
        for k in ks:
            if k <= 0 or k + n >= 2 ** 32:
                continue
            ek = {k_: tree_of(r, k_ == "Constant") for k_, r in h.json("entry", [k], text).items()}
            for name, tk in ek.items():
                t0 = e0.get(name)
                if t0 is None:
                    continue
                if not same(tk, shifted(t0, k)):
                    res.add(classify_shift(v, name, t0, tk, k, text), {"entry": name, "k": k, "at0": summ(t0), "atk": summ(tk), "first": first_difference(tk, shifted(t0, k))}, dict(wit0, offset=k, entries=[name]))
                res.counters["offset-comparisons"] += 1
            for mode in ("exec", "eval"):
                l0 = h.json("lex", [mode, 0], text)
                lk = h.json("lex", [mode, k], text)
                if "panic" in l0 or "panic" in lk:
                    res.add("unlisted:panic", {"lex": True, "k": k}, wit0)
                    continue
                e0l = l0["err"]
                ekl = lk["err"]
                if shift_tokens(l0["toks"], k) != lk["toks"] or (e0l is None) != (ekl is None) or (e0l and (e0l["err"] != ekl["err"] or e0l["offset"] + k != ekl["offset"])):
                    res.add("unlisted:lex-offset-not-a-translation", {"k": k, "mode": mode}, dict(wit0, op="lex", offset=k))
                res.counters["lex-offset-comparisons"] += 1


def _ref_accepts_eval(text):
    try:
        pyref.py_parse(text, "eval")
        return True
    except pyref.PyReject:
        return False


def first_difference(a, b):
    if a[0] == "ok" and b[0] == "ok" and isinstance(a[1], dict) and isinstance(b[1], dict):
        d = pyref.Diff(b"", check_ranges=True)
        d.go(a[1], b[1])
        if d.tree:
            return d.tree[0][:4]
        if d.ranges:
            return [d.ranges[0][1][-60:], d.ranges[0][2], d.ranges[0][3]]
    return None


def classify_shift(v, name, t0, tk, k, text):
    # K: token-less input reports its end-of-input error at 0 regardless of the start offset
    if t0[0] == "err" and tk[0] == "err" and t0[1] == tk[1] == "Eof" and t0[2] == 0 and tk[2] == 0:
        return "eof-error-offset-not-translated-for-token-less-input"
    if name in ("Stmt", "Stmt.parse") or name.startswith("typed:Stmt"):
        if t0[0] == "err" and tk[0] == "err" and t0[1] == tk[1] == "Eof" and t0[2] == 0 and tk[2] == 0:
            return "eof-error-offset-not-translated-for-token-less-input"
    # K: under all-nodes-with-ranges the Mod* node starts at 0 even with a start offset (and ends at 0 when there is no token)
    if v == "full" and t0[0] == "ok" and tk[0] == "ok" and isinstance(tk[1], dict) and tk[1].get("_t") in ("Module", "Expression", "Interactive", "ModModule", "ModExpression", "ModInteractive"):
        a = dict(pyref.shift(t0[1], k))
        b = dict(tk[1])
        ra, rb = a.pop("_r", None), b.pop("_r", None)
        if canon(a) == canon(b) and ra is not None and rb is not None and rb[0] == 0 and (rb[1] == ra[1] or (rb[1] == 0 and ra[0] == ra[1])):
            return "mod-range-starts-at-zero-with-start-offset"
    return "unlisted:offset-not-a-translation"


def classify_eval(text, ev, ex):
    return "unlisted:expression-mode-disagrees-with-module-mode"


def classify_interactive(text, si, ex):
    return "unlisted:interactive-mode-disagrees-with-module-mode"


def mutations(text, rng, n):
    out = []
    for _ in range(n):
        t = list(text)
        for _ in range(rng.randint(1, 3)):
            if not t:
                break
            i = rng.randrange(len(t))
            k = rng.randrange(5)
            if k == 0:
                del t[i:i + rng.randint(1, 5)]
            elif k == 1:
                t.insert(i, rng.choice(["(", ")", "'", '"', ":", "\\", "\n", "\t", " ", "f'{", "$", "é", "=", ",", "#"]))
            elif k == 2:
                t[i] = rng.choice("()[]{}:,.'\"\\ \n")
            elif k == 3 and i + 1 < len(t):
                t[i], t[i + 1] = t[i + 1], t[i]
            else:
                t = t[:i]
        out.append("".join(t))
    return out


def _work(st, batch):
    res = core.Result("C09", "", 0)
    for tag, text, seed in batch:
        check_text(st, res, tag, text, core.rng_for(seed, "c09", tag))
        if len(res.samples) < 2 and len(text) < 120:
            res.sample({"tag": tag, "text": text})
    return res


def mode_strings(res, bins):
    h = core.Harness(bins["deflt"])
    want = {"exec": "Module", "eval": "Expression", "single": "Module"}
    for s in ["exec", "eval", "single", "", "Exec", "EXEC", "module", "expression", "interactive", "exec ", " eval", "evaluate", "func_type", "e", "singl", "single\n", "exec\0"]:
        got = json.loads(h.call("mode", [], s))
        res.evaluations += 1
        if s in want:
            if got != want[s]:
                res.add("unlisted:mode-from-str", {"name": s, "got": got}, {"op": "mode", "text": s})
        elif not (isinstance(got, dict) and "err" in got):
            res.add("unlisted:mode-from-str-accepts-undocumented-name", {"name": s, "got": got}, {"op": "mode", "text": s})


def run(res):
    thorough = res.tier == "thorough"
    bins = core.build(VARIANTS)
    rng = core.rng_for(res.seed, "c09")
    texts = []
    small = [(t, s) for t, s in tw.corpus_programs(res.seed, 300 if thorough else 80) if len(s) < 3000]
    gens = tw.generated_programs(res.seed, 2500 if thorough else 800, max_depth=3)
    exprs = tw.generated_expressions(res.seed, 2500 if thorough else 1000)
    for tag, s in small + gens:
        if len(s) > 2500:
            continue
        texts.append((tag, s))
        # single statements / expressions cut out of the program exercise the typed parsers
        lines = [l for l in s.split("\n") if l and not l.startswith((" ", "\t", "#"))]
        for l in rng.sample(lines, min(len(lines), 3)):
            texts.append((tag + ":line", l + "\n"))
        for m in mutations(s, rng, 2):
            texts.append((tag + ":mut", m))
    for tag, s in exprs:
        texts.append((tag, s))
        texts.append((tag + ":nl", s + "\n"))
    directed = ["", " ", "\n", "# c", "# c\n", "x", "x\n", "x;", "x; y", "x\ny\n", "1", "'s'", "b'b'", "1.5j", "None", "...", "f'{x}'", "f'{x!r:>{w}}' 'a'", "pass", "def f(): pass", "class C: pass",
                "return", "x = 1", "x += 1", "x: int", "del x", "if x: pass", "for x in y: pass", "while x: pass", "with x: pass", "match x:\n case _: pass", "raise", "try: pass\nfinally: pass",
                "try: pass\nexcept* E: pass", "assert x", "import a", "from a import b", "global x", "nonlocal x", "break", "continue", "async def f(): pass", "async for x in y: pass",
                "async with x: pass", "type X = int", "a and b", "a := b", "(a := b)", "a + b", "-a", "lambda: 0", "a if b else c", "{a: b}", "{a}", "[a for a in b]", "{a for a in b}",
                "{a: b for a in c}", "(a for a in b)", "await a", "yield", "yield a", "yield from a", "a < b", "f(a)", "a.b", "a[b]", "*a", "*a, b", "[a]", "(a, b)", "a[b:c]", "a,", "(", ")", "x = (", "'", "f'{", "\\", "\t x", "  x", "x\n  y", "é = 1", "﻿x", "x\r\ny\r", "1 +", "def", "lambda", "@", "x $ y"]
    # errors raised by the nested parsers (string escapes, f-string fields in every variant): their offsets are
    # computed apart from the main lexer's
    bad_exprs = ["a b", "(", "a +", "1 2", "a b c", ")", "lambda", "x y=1", "*", "a $", "'", "a:=", "{", "é ü"]
    shapes = ["{%s}", "{%s=}", "{%s = }", "{%s!r}", "{%s=!r}", "{%s:>10}", "{%s=:>{w}}", "{x:{%s}}", "{x=:{%s}}", "{x!r:{%s=}}", "{x}{%s}", "{{}}{%s=}", "{'q'}{%s=}", "{x:{w}}{%s}"]
    prefixes = ["", "x = ", "é = 1\ny = ", "# c\r\n", "if a:\n    z = ", "'lit' ", "b = (\n  "]
    fbad = ["f'{}'", "f'{x'", "f'{x:{'", "f'{=}'", "f'}'", "f'{x!z}'", "f'{x!}'", "f'{x!rr}'", "f'{x:{y:{z}}}'", "f'{a\\b}'", "'\\N{x}'", "'\\x4'", "'\\u12'", "b'é'", "'a' b'b'",
            "f'{x}' b'b'", "f'''{\na b\n}'''", "f'{x' 'y'", "u'a' f'{a b=}'", "'\\U00110000'", "f'{x:\\N{nope}}'", "f'\\N{nope}{x}'"]
    k = 0
    for e in bad_exprs:
        for sh in shapes:
            k += 1
            q = rng.choice(["'", '"', "'" * 3, '"' * 3])
            if q[0] in e or q[0] in sh:
                q = '"' * 3 if "'" in (e + sh) else "'"
            texts.append(("fbad:%d" % k, rng.choice(prefixes) + rng.choice(["f", "F", "rf", "fR"]) + q + rng.choice(["", "ab ", "é{{"]) + sh % e + rng.choice(["", " z", "{y}"]) + q + rng.choice(["", "\n"])))
    for i, t in enumerate(fbad):
        for pre in prefixes[:4]:
            texts.append(("fbad-directed:%d" % i, pre + t))
    for i, s in enumerate(directed):
        texts.append(("directed:%d" % i, s))
    items = [(tag, s, res.seed) for tag, s in texts]
    parts = core.pmap(_work, tw.batches(items, 25), init=tw.init_state, initargs=(bins,))
    for p in parts:
        res.merge(p)
    mode_strings(res, bins)
    res.rule = ("texts: small corpus programs, generated programs and expressions, single lines cut from them, seeded mutations (invalid texts), %d directed snippets covering every "
                "statement/expression kind and typical errors; for each text every entry point (parse, parse_starts_at, parse_tokens, Parse::* for Mod*/Suite/Stmt/Expr/"
                "Identifier/Constant and the 55 typed parsers, deprecated helpers) at offset 0 and at three offsets from {1,3,400,65535,2^31,2^32-1-len}, plus lex/lex_starts_at, "
                "in the default and the all-nodes-with-ranges build; a case is (build, text)" % len(directed))
    res.assumptions = ["entry-point relations as stated in the property (expression mode = value of the sole expression statement; interactive = module body; typed parsers = the corresponding part or InvalidToken at the node start)"]


def replay(w):
    bins = core.build(VARIANTS)
    st = tw.State(bins)
    r = core.Result("C09", "replay", 0)
    check_text(st, r, "replay", w["witness"]["text"], core.rng_for(0, "replay"))
    for o in r.obs:
        print(o.cls, o.detail)
    return 1 if r.obs else 0
