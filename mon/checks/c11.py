"""C11: unparsing an expression and parsing it again gives the same expression.

In-process round trip (harness op `unparse`): parse -> render -> parse -> render. The rendering must be accepted, the
re-parsed tree must equal the original up to ranges and load/store tags, and rendering must be a fixed point.
"""
import ast
import json
import struct
from collections import Counter

from .. import core, gen, pyref, sanitize, treework as tw

VARIANT = "full-chk"

# (name, template with {} operands) — every operator of the precedence table, both nesting sides
PARENTS = [
    ("or", "{} or {}"), ("and", "{} and {}"), ("not", "not {}"), ("lt", "{} < {}"), ("in", "{} in {}"), ("is not", "{} is not {}"), ("chain", "{} < {} >= {}"),
    ("bor", "{} | {}"), ("bxor", "{} ^ {}"), ("band", "{} & {}"), ("lshift", "{} << {}"), ("rshift", "{} >> {}"), ("add", "{} + {}"), ("sub", "{} - {}"),
    ("mul", "{} * {}"), ("div", "{} / {}"), ("floordiv", "{} // {}"), ("mod", "{} % {}"), ("matmul", "{} @ {}"), ("neg", "-{}"), ("pos", "+{}"), ("inv", "~{}"),
    ("pow", "{} ** {}"), ("await", "await {}"), ("ifexp", "{} if {} else {}"), ("lambda", "lambda: {}"), ("lambda-default", "lambda a={}: 0"), ("walrus", "(x := {})"),
    ("call", "{}({})"), ("call-star", "f(*{})"), ("call-dstar", "f(**{})"), ("call-kw", "f(k={})"), ("attr", "{}.a"), ("subscript", "{}[{}]"), ("slice", "a[{}:{}:{}]"),
    ("starred-list", "[*{}]"), ("tuple", "{}, {}"), ("list", "[{}, {}]"), ("set", "{{{}, {}}}"), ("dict", "{{{}: {}}}"), ("dict-unpack", "{{**{}}}"),
    ("listcomp", "[{} for x in {} if {}]"), ("genexp", "({} for x in {})"), ("dictcomp", "{{{}: {} for x in {}}}"), ("yield", "(yield {})"), ("yield-from", "(yield from {})"),
    ("fstring", "f'{{{}}}'"), ("fstring-spec", "f'{{x:{{{}}}}}'"), ("group", "({})"), ("tuple1", "({},)"),
]
CHILDREN = ["x", "1", "-1", "1.5", "1j", "'s'", "b'b'", "None", "...", "a or b", "a and b", "not a", "a < b", "a < b < c", "a | b", "a ^ b", "a & b", "a << b", "a + b", "a - b", "a * b",
            "a / b", "a @ b", "-a", "~a", "not not a", "- -a", "a ** b", "-a ** b", "a ** -b", "(-a) ** b", "await a", "a if b else c", "lambda: a", "lambda x, y=1: x", "(a := b)", "a, b", "(a,)", "()",
            "[a]", "{a}", "{a: b}", "{**a}", "[*a]", "f(a)", "f(*a, **b)", "a.b", "a[b]", "a[b:c]", "a[b, c]", "a[:]", "[a for a in b]", "(a for a in b)", "{a: b for a in c}", "(yield)", "(yield a)",
            "(yield from a)", "f'{a}'", "f'{a!r:>{w}}'", "'a' 'b'", "*a", "a if b else c if d else e", "lambda: (yield)", "a.b.c(d)[e]", "1 .real", "1.0.real", "1e100", "1e-7", "0.1", "10**20"]


def bits(f):
    return struct.unpack("<Q", struct.pack("<d", f))[0]


def constants(rng, thorough):
    out = []
    fl = [0.0, 1.0, 0.5, 0.1, 1e16, 1e15, 1e-5, 1e-4, 123456789012345678.0, 5e-324, 1.7976931348623157e308, 0.9999999999999999, 1.0000000000000002, 1e22, 1e23, 2.5e-324, 1e100, 1e-100, 3.14159]
    for _ in range(3000 if thorough else 1500):
        f = struct.unpack("<d", struct.pack("<Q", rng.getrandbits(64)))[0]
        if f == f and abs(f) != float("inf"):
            fl.append(abs(f))
    for f in fl:
        out.append(repr(f))
        out.append(repr(f) + "j")
        out.append("1+" + repr(f) + "j" if False else "(1+%sj)" % repr(f))
    out += ["1e309", "-1e309", "1e309j", "0j", "-0.0", "0.0", "-0j"]
    for k in (0, 1, 7, 31, 32, 63, 64, 100, 1000):
        out += [str(2 ** k), str(2 ** k - 1), hex(2 ** k), "-" + str(2 ** k)]
    alphabet = ["'", '"', "\\", "\n", "\t", "\r", "\x00", "\x7f", " ", "a", "é", "\xa0", "\xad", "​", " ", "", "𝄞", "😀", "{", "}", "%"]
    for _ in range(2000 if thorough else 1000):
        s = "".join(rng.choice(alphabet) for _ in range(rng.randint(0, 8)))
        out.append(repr(s))
        try:
            out.append(repr(s.encode("latin-1")))
        except UnicodeEncodeError:
            out.append(repr(s.encode("utf-8")))
    out += ["''", "b''", "'\\''", '"\\""', "'\\N{BULLET}'", "u'x'", "r'\\d'", "rb'\\d'", "'''a\nb'''", "True", "False", "None", "...", "(1, 2, (3, 'a'))", "((),)", "(1,)"]
    return out


def fstrings(rng, n):
    out = []
    for i in range(n):
        g = gen.Gen(core.rng_for(rng.random(), "fs", i), max_depth=2)
        out.append(g.fstring(0))
    out += ["f'{a}'", "f\"{'a'} \\\"\"", "f'{a!r}{b!s}{c!a}'", "f'{a:>10}'", "f'{a:{w}.{p}}'", "f'{a=}'", "f'{a = !r:>5}'", "f'{{}}'", "f'{{{a}}}'", "f'\\n{a}\\t'", "f'{a}' 'b' f'{c}'", "f'''{a}\n'''", "f\"{a['k']}\"",
            "f'{a:\\n}'", "f'{\"x\\ny\"}'", "f'{\"it''s\"}'", "f\"{'it\\'s'}\"" if False else "f'{x}'", "f'{a!r:^{w}}|{b}'", "rf'\\d{a}'", "f'{(lambda: 1)()}'", "f'{a if b else c}'", "f'{a, b}'", "f'{*a, b}'", "f'{ {1: 2}[1] }'",
            "f'{\"{\"}'", "f'{\"}\"}'", "f'é{a}日'", "f'{a}' \"'\" '\"'", "f'\\'{a}\"'", "f'\"{a}\\''"]
    return out


def shape_families():
    """Small-scope exhaustive families where the renderer has special cases: call argument lists (sole generator
    argument, starred, keywords, ** unpacking in every order the grammar allows), subscripts and slices, lambda
    parameter lists, comprehension clauses, dict / set displays with unpacking. Only texts the reference accepts."""
    import itertools
    out = []
    pos = ["a", "*a", "(x for x in y)", "lambda: 0", "a if b else c", "(yield)", "(a := 1)", "-1"]
    kws = ["k=v", "**kw", "k=(x for x in y)", "k=lambda: 0", "k=(yield)", "k=*a" if False else "k2=a if b else c"]
    for np_ in range(0, 3):
        for ps in itertools.product(pos, repeat=np_):
            for nk in range(0, 3):
                for ks in itertools.product(kws, repeat=nk):
                    if len(set(k.split("=")[0] for k in ks if not k.startswith("**"))) != len([k for k in ks if not k.startswith("**")]):
                        continue
                    args = ", ".join(list(ps) + list(ks))
                    out.append("f(%s)" % args)
    out += ["f(x for x in y)", "f((x for x in y))", "f(a)(x for x in y)", "f((x for x in y), *a)", "f(*a, (x for x in y))", "f(k=v, *a)", "f(**kw, k=v)", "f(*a, k=v, *b, **kw, **kw2)", "f(a,)", "f(*a,)",
            "f(**kw,)", "f((x for x in y),)", "f(x for x in y if z)", "f((yield))", "f(k=(yield))", "f(await a)"]
    subs = ["a", "a:b", "a:b:c", ":", "::", ":b", "a:", "::c", ":b:c", "a::c", "*a", "(a, b)", "(a:=1)", "a if b else c", "lambda: 0", "-1", "..."]
    for n in range(1, 3):
        for ss in itertools.product(subs, repeat=n):
            out.append("x[%s]" % ", ".join(ss))
            if n == 1:
                out.append("x[%s,]" % ss[0])
    params = ["", "a", "a, b=1", "a, /", "a, /, b", "a=1, /, b=2", "*a", "*, k", "*, k=1", "*a, k", "**kw", "a, *b, c, d=1, **e", "a, /, b, *, c", "*, a=1, b", "a=(x for x in y)", "a=lambda: 0", "a=(yield)"]
    for p_ in params:
        out.append("lambda %s: 0" % p_ if p_ else "lambda: 0")
        out.append("lambda %s: (yield)" % p_ if p_ else "lambda: (yield)")
    clauses = ["for a in b", "for a, b in c", "for a in b if c", "for a in b if c if d", "for a in b for c in d", "async for a in b", "for a in (yield)", "for a in b if (c := d)", "for a in lambda: 0, 1" if False else "for a in (lambda: 0)",
               "for (a, b) in c", "for [a, *b] in c", "for a.b in c", "for a[0] in c", "for a in b, c" if False else "for a in (b, c)", "for a in b if lambda: 0" if False else "for a in b if (lambda: 0)"]
    for c1 in clauses:
        for tpl in ("[x %s]", "(x %s)", "{x %s}", "{x: y %s}", "[(x, y) %s]", "[x if y else z %s]", "[*x for x in y]" if False else "[lambda: x %s]"):
            out.append(tpl % c1)
        for c2 in clauses[:6]:
            out.append("[x %s %s]" % (c1, c2))
    items = ["a: b", "**c", "'k': (x for x in y)", "a: lambda: 0", "**(a or b)", "**a.b", "a: b if c else d", "(a, b): c", "**{'x': 1}"]
    for n in range(0, 3):
        for it in itertools.product(items, repeat=n):
            out.append("{%s}" % ", ".join(it))
    sets = ["a", "*b", "(x for x in y)", "lambda: 0", "a if b else c", "(a, b)", "*a, " if False else "*(a or b)"]
    for n in range(1, 3):
        for it in itertools.product(sets, repeat=n):
            for tpl in ("{%s}", "[%s]", "(%s,)"):
                out.append(tpl % ", ".join(it))
    seen = set()
    keep = []
    for e in out:
        if e in seen:
            continue
        seen.add(e)
        try:
            ast.parse(e, mode="eval")
            keep.append(e)
        except SyntaxError:
            pass
    return keep


def nested_triples(rng, thorough):
    """Three levels: a slot whose rendering level is unusual (subscript index, slice part, argument, display element, clause
    part, f-string field ...) holding an operator that passes its own level on to an operand, holding an expression that needs
    parentheses in some places and not in others. Built as reference syntax trees and written out by the reference's own
    unparser, which knows where Python needs parentheses; only texts the reference parses back are kept."""
    N = lambda s: ast.Name(id=s, ctx=ast.Load())
    C = lambda v: ast.Constant(value=v)
    fillers = [
        ("tuple", lambda: ast.Tuple(elts=[C(1), C(2)], ctx=ast.Load())), ("tuple1", lambda: ast.Tuple(elts=[N("t")], ctx=ast.Load())), ("tuple0", lambda: ast.Tuple(elts=[], ctx=ast.Load())),
        ("walrus", lambda: ast.NamedExpr(target=ast.Name(id="w", ctx=ast.Store()), value=C(1))), ("lambda", lambda: ast.Lambda(args=ast.arguments(posonlyargs=[], args=[], kwonlyargs=[], kw_defaults=[], defaults=[]), body=N("b"))),
        ("ifexp", lambda: ast.IfExp(test=N("p"), body=N("q"), orelse=N("r"))), ("yield", lambda: ast.Yield(value=N("y"))), ("yield-bare", lambda: ast.Yield(value=None)), ("yieldfrom", lambda: ast.YieldFrom(value=N("y"))),
        ("await", lambda: ast.Await(value=N("aw"))), ("genexp", lambda: ast.GeneratorExp(elt=N("g"), generators=[ast.comprehension(target=ast.Name(id="g", ctx=ast.Store()), iter=N("h"), ifs=[], is_async=0)])),
        ("neg", lambda: ast.UnaryOp(op=ast.USub(), operand=C(1))), ("not", lambda: ast.UnaryOp(op=ast.Not(), operand=N("n"))), ("pow", lambda: ast.BinOp(left=N("a"), op=ast.Pow(), right=N("b"))),
        ("or", lambda: ast.BoolOp(op=ast.Or(), values=[N("a"), N("b")])), ("cmp", lambda: ast.Compare(left=N("a"), ops=[ast.Lt()], comparators=[N("b")])), ("bitor", lambda: ast.BinOp(left=N("a"), op=ast.BitOr(), right=N("b"))),
        ("starred", lambda: ast.Starred(value=N("s"), ctx=ast.Load())), ("int", lambda: C(7)), ("float", lambda: C(1.5)), ("complex", lambda: C(2j)), ("negconst", lambda: C(-3)), ("str", lambda: C("s")), ("slice", lambda: ast.Slice(lower=N("lo"), upper=None, step=None)),
    ]
    middles = [
        ("ifexp.test", lambda x: ast.IfExp(test=x, body=N("a"), orelse=N("b"))), ("ifexp.body", lambda x: ast.IfExp(test=N("c"), body=x, orelse=N("b"))), ("ifexp.orelse", lambda x: ast.IfExp(test=N("c"), body=N("a"), orelse=x)),
        ("ifexp.chain", lambda x: ast.IfExp(test=N("c"), body=N("a"), orelse=ast.IfExp(test=N("d"), body=N("e"), orelse=x))), ("and.0", lambda x: ast.BoolOp(op=ast.And(), values=[x, N("b")])), ("or.1", lambda x: ast.BoolOp(op=ast.Or(), values=[N("a"), x])),
        ("not", lambda x: ast.UnaryOp(op=ast.Not(), operand=x)), ("usub", lambda x: ast.UnaryOp(op=ast.USub(), operand=x)), ("pow.l", lambda x: ast.BinOp(left=x, op=ast.Pow(), right=N("b"))), ("pow.r", lambda x: ast.BinOp(left=N("a"), op=ast.Pow(), right=x)),
        ("add.l", lambda x: ast.BinOp(left=x, op=ast.Add(), right=N("b"))), ("sub.r", lambda x: ast.BinOp(left=N("a"), op=ast.Sub(), right=x)), ("cmp.l", lambda x: ast.Compare(left=x, ops=[ast.Lt()], comparators=[N("b")])),
        ("cmp.r", lambda x: ast.Compare(left=N("a"), ops=[ast.In()], comparators=[x])), ("lambda.body", lambda x: ast.Lambda(args=ast.arguments(posonlyargs=[], args=[], kwonlyargs=[], kw_defaults=[], defaults=[]), body=x)),
        ("await", lambda x: ast.Await(value=x)), ("walrus.value", lambda x: ast.NamedExpr(target=ast.Name(id="n", ctx=ast.Store()), value=x)), ("starred", lambda x: ast.Starred(value=x, ctx=ast.Load())), ("attr", lambda x: ast.Attribute(value=x, attr="at", ctx=ast.Load())),
        ("call.func", lambda x: ast.Call(func=x, args=[], keywords=[])), ("sub.value", lambda x: ast.Subscript(value=x, slice=C(0), ctx=ast.Load())), ("yield", lambda x: ast.Yield(value=x)), ("yieldfrom", lambda x: ast.YieldFrom(value=x)),
        ("tuple.elt", lambda x: ast.Tuple(elts=[x, N("b")], ctx=ast.Load())), ("tuple.sole", lambda x: ast.Tuple(elts=[x], ctx=ast.Load())), ("id", lambda x: x),
    ]
    comp = lambda it, ifs=(): [ast.comprehension(target=ast.Name(id="i", ctx=ast.Store()), iter=it, ifs=list(ifs), is_async=0)]
    outers = [
        ("index", lambda y: ast.Subscript(value=N("v"), slice=y, ctx=ast.Load())), ("index.tuple", lambda y: ast.Subscript(value=N("v"), slice=ast.Tuple(elts=[y, N("k")], ctx=ast.Load()), ctx=ast.Load())),
        ("slice.lower", lambda y: ast.Subscript(value=N("v"), slice=ast.Slice(lower=y, upper=N("u"), step=None), ctx=ast.Load())), ("slice.upper", lambda y: ast.Subscript(value=N("v"), slice=ast.Slice(lower=None, upper=y, step=None), ctx=ast.Load())),
        ("slice.step", lambda y: ast.Subscript(value=N("v"), slice=ast.Slice(lower=None, upper=None, step=y), ctx=ast.Load())), ("slice.in.tuple", lambda y: ast.Subscript(value=N("v"), slice=ast.Tuple(elts=[ast.Slice(lower=y, upper=None, step=None), N("k")], ctx=ast.Load()), ctx=ast.Load())),
        ("arg", lambda y: ast.Call(func=N("f"), args=[y], keywords=[])), ("arg.2", lambda y: ast.Call(func=N("f"), args=[N("a"), y], keywords=[])), ("kwarg", lambda y: ast.Call(func=N("f"), args=[], keywords=[ast.keyword(arg="k", value=y)])),
        ("kwargs", lambda y: ast.Call(func=N("f"), args=[], keywords=[ast.keyword(arg=None, value=y)])), ("list", lambda y: ast.List(elts=[y], ctx=ast.Load())), ("set", lambda y: ast.Set(elts=[y, N("z")])),
        ("dict.key", lambda y: ast.Dict(keys=[y], values=[N("v")])), ("dict.value", lambda y: ast.Dict(keys=[N("k")], values=[y])), ("dict.unpack", lambda y: ast.Dict(keys=[None], values=[y])),
        ("listcomp.elt", lambda y: ast.ListComp(elt=y, generators=comp(N("it")))), ("comp.iter", lambda y: ast.ListComp(elt=N("e"), generators=comp(y))), ("comp.if", lambda y: ast.ListComp(elt=N("e"), generators=comp(N("it"), [y]))),
        ("dictcomp.key", lambda y: ast.DictComp(key=y, value=N("v"), generators=comp(N("it")))), ("dictcomp.value", lambda y: ast.DictComp(key=N("k"), value=y, generators=comp(N("it")))), ("genexp.elt", lambda y: ast.GeneratorExp(elt=y, generators=comp(N("it")))),
        ("bare", lambda y: y), ("field", lambda y: ast.JoinedStr(values=[ast.FormattedValue(value=y, conversion=-1, format_spec=None)])), ("field.spec", lambda y: ast.JoinedStr(values=[ast.FormattedValue(value=N("v"), conversion=-1, format_spec=ast.JoinedStr(values=[ast.FormattedValue(value=y, conversion=-1, format_spec=None)]))])),
        ("lambda.default", lambda y: ast.Lambda(args=ast.arguments(posonlyargs=[], args=[ast.arg(arg="p")], kwonlyargs=[], kw_defaults=[], defaults=[y]), body=N("p"))), ("starred.in.list", lambda y: ast.List(elts=[ast.Starred(value=y, ctx=ast.Load())], ctx=ast.Load())),
        ("paren.call", lambda y: ast.Call(func=ast.Attribute(value=y, attr="m", ctx=ast.Load()), args=[], keywords=[])), ("ifexp.test", lambda y: ast.IfExp(test=y, body=N("a"), orelse=N("b"))),
    ]
    out = []
    seen = set()
    for on, o in outers:
        for mn, m in middles:
            for fn_, f in fillers:
                if not thorough and rng.random() > .45 and not (on.startswith(("index", "slice")) or mn.startswith("ifexp")):
                    continue
                try:
                    text = ast.unparse(ast.fix_missing_locations(ast.Expression(body=o(m(f())))))
                    ast.parse(text, mode="eval")
                except (SyntaxError, ValueError, TypeError, AttributeError):
                    continue
                if text not in seen:
                    seen.add(text)
                    out.append(("nest3:%s/%s/%s" % (on, mn, fn_), text))
    return out


def erase(n):
    return pyref.erase(n, drop=("_r", "_awd", "ctx"))


def check_expr(h, res, tag, text):
    rep = h.json("unparse", [], text)
    wit = {"op": "unparse", "text": text, "tag": tag}
    if "err0" in rep:
        res.counters["original-not-parsed"] += 1
        return
    res.seen(text)
    if "panic" in rep:
        res.add("unlisted:panic", rep, wit)
        return
    if "err1" in rep:
        res.add(classify(text, rep, "reparse"), {"source": text[:120], "rendered": rep["t1"][:160], "err": rep["err1"].get("err")}, wit)
        return
    try:
        e1, e2 = pyref.rust_tree(rep["e1"]), pyref.rust_tree(rep["e2"])
    except (ValueError, KeyError) as e:
        res.inconclusive.append("dump conversion failed: %s" % e)
        return
    if json.dumps(erase(e1), sort_keys=True, default=repr) != json.dumps(erase(e2), sort_keys=True, default=repr):
        if json.dumps(norm_joined(erase(e1)), sort_keys=True, default=repr) == json.dumps(norm_joined(erase(e2)), sort_keys=True, default=repr):
            res.add("fstring-concat-pieces-normalised-by-unparse", {"source": text[:120], "rendered": rep["t1"][:160]}, wit)
            return
        d = pyref.Diff(b"", check_ranges=False)
        # compared with adjacent literal pieces merged on both sides (the piece normalisation is a known class of its own and
        # may coincide with another deviation in the same expression)
        d.go(norm_joined(erase(e2)), norm_joined(erase(e1)))
        res.add(classify(text, rep, "tree", d.tree[:1]), {"source": text[:120], "rendered": rep["t1"][:160], "first": [x[:4] for x in d.tree[:1]]}, wit)
        return
    if rep["t1"] != rep["t2"]:
        res.add(classify(text, rep, "fixpoint"), {"source": text[:100], "first": rep["t1"][:120], "second": rep["t2"][:120]}, wit)
        return
    res.counters["round-trips-ok"] += 1
    for n, p, f in pyref.walk(e1):
        res.cover.setdefault("node_kinds", Counter())[n["_t"]] += 1
        break


def norm_joined(n):
    """Inside f-strings: drop empty literal pieces, merge adjacent literal pieces, forget the `u` kind marker."""
    if isinstance(n, dict):
        out = {k: norm_joined(v) for k, v in n.items()}
        if out.get("_t") == "JoinedStr":
            vals = []
            for v in out["values"]:
                if isinstance(v, dict) and v.get("_t") == "Constant" and isinstance(v.get("value"), str):
                    v = dict(v, kind=None)
                    if v["value"] == "":
                        continue
                    if vals and isinstance(vals[-1], dict) and vals[-1].get("_t") == "Constant":
                        vals[-1] = dict(vals[-1], value=vals[-1]["value"] + v["value"])
                        continue
                vals.append(v)
            out["values"] = vals
        return out
    if isinstance(n, list):
        return [norm_joined(x) for x in n]
    return n


def _undouble(x):
    """The summary text of a constant with every run of backslashes halved until stable (exactly the effect of one or
    more render/parse rounds that double backslashes)."""
    prev = None
    while prev != x:
        prev = x
        x = x.replace("\\\\", "\\")
    return x


def classify(text, rep, what, first=None):
    t1 = rep.get("t1", "")
    if what == "reparse" and ("f'" in t1 or 'f"' in t1) and ("\\'" in t1 or '\\"' in t1):
        # a field holding a string of the same quote kind as the literal is rendered with backslash-escaped quotes
        return "fstring-unparse-escaped-quote-inside-field"
    if what == "tree" and first:
        cls, path, a, b = first[0][:4]
        if ("JoinedStr" in path or "FormattedValue" in path) and isinstance(a, str) and isinstance(b, str):
            ua, ub = a.replace("\\\\", "\\"), b
            if a != b and _undouble(a) == _undouble(b) and "\\" in a:
                # escapes in constants inside an f-string (field strings, format specs) come back with doubled backslashes
                return "fstring-unparse-doubles-backslashes"
    return {"reparse": "unlisted:rendering-rejected", "tree": "unlisted:tree-differs-after-round-trip", "fixpoint": "unlisted:rendering-not-a-fixed-point"}[what]


def corpus_expressions(seed, nfiles, per_file):
    out = []
    rng = core.rng_for(seed, "c11corpus")
    for tag, text in tw.corpus_programs(seed, nfiles):
        try:
            pt = pyref.py_tree(text)
        except pyref.PyReject:
            continue
        b = text.encode("utf-8", "surrogatepass")
        nodes = [n for n, p, f in pyref.walk(pt) if n["_t"] in pyref.EXPR_KINDS and n.get("_r") and n["_t"] not in ("Name", "Slice", "Starred")
                 and not (p and p["_t"] in ("JoinedStr", "FormattedValue")) and n["_r"][1] - n["_r"][0] < 2000]
        rng.shuffle(nodes)
        for n in nodes[:per_file]:
            seg = b[n["_r"][0]:n["_r"][1]].decode("utf-8", "replace")
            out.append((tag + ":expr", "(" + seg + ")" if "\n" in seg else seg))
    return out


def _work(st, batch):
    res = core.Result("C11", "", 0)
    for tag, text in batch:
        check_expr(st[VARIANT], res, tag, text)
        if len(res.samples) < 2 and len(text) < 100:
            res.sample({"tag": tag, "text": text})
    return res


def run(res):
    thorough = res.tier == "thorough"
    bins = core.build([VARIANT, "deflt"])
    rng = core.rng_for(res.seed, "c11")
    items = []
    for pname, tpl in PARENTS:
        k = tpl.count("{}")
        for pos in range(k):
            for ci, child in enumerate(CHILDREN):
                ops = ["z"] * k
                ops[pos] = "(" + child + ")" if not child.startswith("*") else child
                if child.startswith("*") and pname not in ("tuple", "list", "set", "call"):
                    continue
                items.append(("pair:%s/%d/%d" % (pname, pos, ci), tpl.format(*ops)))
                ops[pos] = child
                items.append(("pair-bare:%s/%d/%d" % (pname, pos, ci), tpl.format(*ops)))
    items += [("shape:%d" % i, c) for i, c in enumerate(shape_families())]
    items += nested_triples(rng, thorough)
    items += [("const:%d" % i, c) for i, c in enumerate(constants(rng, thorough))]
    items += [("fstr:%d" % i, c) for i, c in enumerate(fstrings(rng, 3000 if thorough else 1500))]
    items += tw.generated_expressions(res.seed, 30000 if thorough else 10000)
    items += corpus_expressions(res.seed, 1500 if thorough else 100, 60 if thorough else 40)
    parts = core.pmap(_work, tw.batches(items, 300), init=tw.init_state, initargs=({VARIANT: bins[VARIANT]},))
    for p in parts:
        res.merge(p)
    # the Unparser's pointer cast under valgrind (and Miri in thorough)
    sample = [t for _, t in items[:: max(1, len(items) // 150)]][:150]
    for i, t in enumerate(sample[: (60 if thorough else 25)]):
        sanitize.batch_under_tools(res, bins, "unparse", [], t.encode("utf-8", "surrogatepass"), tools=("valgrind",) if i % 5 or not thorough else ("valgrind", "miri"), what="unparse " + t[:40])
    res.cover["operator_pairs"] = len(PARENTS) * len(CHILDREN)
    res.rule = ("all (parent operator, operand position, child expression) combinations over %d parent forms x %d child forms, parenthesised and bare; constants (seeded doubles, "
                "boundary floats, huge ints, strings/bytes over a special-character alphabet, tuples); generated and directed f-strings; generator expressions; sub-expressions "
                "cut from the library corpus; only expressions the parser accepts count; a case is one expression text" % (len(PARENTS), len(CHILDREN)))
    res.assumptions = ["equality is checked on the generic dumps with ranges and ctx erased"]


def replay(w):
    bins = core.build([VARIANT])
    h = core.Harness(bins[VARIANT])
    r = core.Result("C11", "replay", 0)
    check_expr(h, r, "replay", w["witness"]["text"])
    for o in r.obs:
        print(o.cls, o.detail)
    return 1 if r.obs else 0
