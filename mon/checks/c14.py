"""C14: converting between the two parameter-list forms keeps every parameter.

Exhaustive small-scope enumeration of signature shapes; every default is a distinct integer literal, so a surviving
default identifies the parameter it was written on. The expected structures are computed from the generator's own
description of the signature (not from the code under test).
"""
import itertools
from collections import Counter

from .. import core, pyref, treework as tw

VARIANT = "deflt"   # from_arg is `todo!()` under all-nodes-with-ranges


def signatures(max_pos, max_args, max_kw, annotations):
    """Yield descriptions: list of (kind, name, default:int|None, annotated)."""
    for npos in range(max_pos + 1):
        for nargs in range(max_args + 1):
            for var in (0, 1):
                for nkw in range(max_kw + 1):
                    for kwarg in (0, 1):
                        if nkw and not var:
                            star = True   # bare `*`
                        else:
                            star = False
                        n_positional = npos + nargs
                        # legal default subsets for positional params: a suffix
                        for ndef in range(n_positional + 1):
                            for kwmask in range(1 << nkw):
                                for ann in ((False, True) if annotations else (False,)):
                                    desc = []
                                    c = 0
                                    for i in range(npos):
                                        c += 1
                                        desc.append(("posonly", "p%d" % i, (100 + c) if (i >= n_positional - ndef) else None, ann))
                                    for i in range(nargs):
                                        c += 1
                                        desc.append(("arg", "a%d" % i, (100 + c) if (npos + i >= n_positional - ndef) else None, ann))
                                    if var:
                                        desc.append(("vararg", "va", None, ann))
                                    for i in range(nkw):
                                        desc.append(("kwonly", "k%d" % i, (200 + i) if (kwmask >> i) & 1 else None, ann))
                                    if kwarg:
                                        desc.append(("kwarg", "kw", None, ann))
                                    yield desc, star


def render(desc, star, lam):
    parts = []
    kinds = [d[0] for d in desc]
    for i, (kind, name, default, ann) in enumerate(desc):
        s = {"vararg": "*", "kwarg": "**"}.get(kind, "") + name
        if ann and not lam:
            s += ": A_%s" % name
        if default is not None:
            s += ("=%d" if (lam or not ann) else " = %d") % default
        if kind == "kwonly" and star and (i == 0 or kinds[i - 1] != "kwonly"):
            parts.append("*")
        parts.append(s)
        if kind == "posonly" and (i + 1 == len(desc) or kinds[i + 1] != "posonly"):
            parts.append("/")
    inner = ", ".join(parts)
    if lam:
        return "lambda %s: 0\n" % inner if inner else "lambda: 0\n"
    return "def f(%s): pass\n" % inner


def _arg(a):
    """canonical (name, annotation-name) of an Arg dump"""
    ann = a.get("annotation")
    return (a["arg"], ann["id"] if pyref.is_node(ann) else None)


def _int(e):
    return e["value"] if pyref.is_node(e) and e["_t"] == "Constant" else ("?", e)


def summarize_arguments(a):
    """Arguments (per-parameter defaults) -> comparable summary."""
    def lst(xs):
        return [(_arg(x["def"]), _int(x["default"]) if x["default"] is not None else None) for x in xs]
    return {"posonly": lst(a["posonlyargs"]), "args": lst(a["args"]), "vararg": _arg(a["vararg"]) if a["vararg"] else None,
            "kwonly": lst(a["kwonlyargs"]), "kwarg": _arg(a["kwarg"]) if a["kwarg"] else None}


def expected_summary(desc, lam):
    def ent(d):
        return ((d[1], ("A_%s" % d[1]) if (d[3] and not lam) else None), d[2])
    return {"posonly": [ent(d) for d in desc if d[0] == "posonly"], "args": [ent(d) for d in desc if d[0] == "arg"],
            "vararg": next((ent(d)[0] for d in desc if d[0] == "vararg"), None),
            "kwonly": [ent(d) for d in desc if d[0] == "kwonly"],
            "kwarg": next((ent(d)[0] for d in desc if d[0] == "kwarg"), None)}


def raw(v):
    """harness dump of a non-wrapped struct -> plain dicts via pyref.rnode without the Arguments rewrite"""
    return v


def _conv(d):
    """Generic dump -> python structure keeping Arguments as they are (pyref.rnode would rewrite them)."""
    if isinstance(d, list):
        return [_conv(x) for x in d]
    if isinstance(d, dict):
        if "_n" in d:
            return pyref.num(d)
        if "_a" in d and d.get("_t") == "Identifier":
            return d["_a"][0]
        if "_a" in d and len(d["_a"]) == 1 and isinstance(d["_a"][0], dict):
            inner = _conv(d["_a"][0])
            if isinstance(inner, dict):
                inner["_t"] = d["_t"]
                if d["_t"] == "Constant" and isinstance(inner.get("value"), dict) and inner["value"].get("_t") == "Int":
                    inner["value"] = inner["value"]["_a"][0]
            return inner
        if "_a" in d:
            return {"_t": d["_t"], "_a": [_conv(x) for x in d["_a"]]}
        return {k: _conv(v) for k, v in d.items()}
    if isinstance(d, str) and d.startswith("@"):
        return d[1:]
    return d


def check_one(h, res, desc, star, lam):
    src = render(desc, star, lam)
    rep = h.json("args", [], src)
    res.seen(src)
    wit = {"op": "args", "text": src}
    if "orig" not in rep:
        res.add("unlisted:not-parsed", {"src": src, "rep": str(rep)[:200]}, wit)
        return
    exp = expected_summary(desc, lam)
    orig = summarize_arguments(_conv(rep["orig"]))
    if orig != exp:
        res.add("unlisted:parser-signature-differs-from-generator", {"src": src, "got": orig, "exp": exp}, wit)
        return
    # Python-style form: documented order of kw-only parameters (no-default ones first), defaults lists as suffixes
    for key in ("py_to", "py_into", "py_from"):
        py = rep[key]
        if isinstance(py, dict) and "panic" in py:
            res.add(classify_panic(py), {"src": src, "api": key, "panic": py}, wit)
            continue
        py = _conv(py)
        pos = [_arg(a) for a in py["posonlyargs"]]
        args = [_arg(a) for a in py["args"]]
        defaults = [_int(e) for e in py["defaults"]]
        kwonly = [_arg(a) for a in py["kwonlyargs"]]
        kwdef = [_int(e) for e in py["kw_defaults"]]
        e_pos = [x[0] for x in exp["posonly"]]
        e_args = [x[0] for x in exp["args"]]
        e_def = [x[1] for x in exp["posonly"] + exp["args"] if x[1] is not None]
        if pos != e_pos or args != e_args or defaults != e_def:
            res.add("unlisted:python-form-positional-part-wrong", {"src": src, "api": key, "pos": pos, "args": args, "defaults": defaults}, wit)
        no_def = [x[0] for x in exp["kwonly"] if x[1] is None]
        with_def = [x for x in exp["kwonly"] if x[1] is not None]
        e_kwonly = no_def + [x[0] for x in with_def]
        e_kwdef = [x[1] for x in with_def]
        if kwonly != e_kwonly or kwdef != e_kwdef:
            res.add("unlisted:python-form-kwonly-not-ordered-as-documented", {"src": src, "api": key, "kwonlyargs": kwonly, "kw_defaults": kwdef, "expected": [e_kwonly, e_kwdef]}, wit)
        if (_arg(py["vararg"]) if py["vararg"] else None) != exp["vararg"] or (_arg(py["kwarg"]) if py["kwarg"] else None) != exp["kwarg"]:
            res.add("unlisted:python-form-variadics-wrong", {"src": src, "api": key}, wit)
    # round trip
    for key in ("back_to", "back_into"):
        bk = rep[key]
        if isinstance(bk, dict) and "panic" in bk:
            res.add(classify_panic(bk), {"src": src, "api": key, "panic": bk}, wit)
            continue
        got = summarize_arguments(_conv(bk))
        # keyword-only parameters may legitimately come back in the documented Python-style order
        exp_rt = dict(exp)
        exp_rt["kwonly"] = [x for x in exp["kwonly"] if x[1] is None] + [x for x in exp["kwonly"] if x[1] is not None]
        if got != exp and got != exp_rt:
            res.add("unlisted:round-trip-changes-signature", {"src": src, "api": key, "got": got, "expected": exp}, wit)
    res.counters["signatures"] += 1


def classify_panic(p):
    return "unlisted:panic"


def _work(st, batch):
    res = core.Result("C14", "", 0)
    for desc, star, lam in batch:
        check_one(st[VARIANT], res, desc, star, lam)
        if len(res.samples) < 2:
            res.sample(render(desc, star, lam))
    return res


def run(res):
    thorough = res.tier == "thorough"
    bins = core.build([VARIANT])
    items = []
    shape = (3, 4, 6, True) if thorough else (2, 3, 4, True)
    for desc, star in signatures(*shape):
        for lam in (False, True):
            if lam and any(d[3] for d in desc):
                continue
            items.append((desc, star, lam))
    # per-parameter annotation masks (the enumeration above annotates all or none): seeded sample
    rng = core.rng_for(res.seed, "c14")
    pool = [(d, st) for d, st in signatures(2, 2, 3, False) if len(d) >= 2]
    for _ in range(20000 if thorough else 3000):
        d, st = rng.choice(pool)
        items.append(([(k, n, dv, rng.random() < .5) for k, n, dv, _ in d], st, False))
    # large signatures ("any number of parameters of each kind"): many parameters, random default masks
    for _ in range(3000 if thorough else 400):
        npos, nargs, nkw = (rng.choice([0, 1, 3, 9, 17, 33]) for _ in range(3))
        nkw = rng.choice([0, 2, 5, 12, 20, 21, 22, 30, 45, 70]) if rng.random() < .7 else nkw
        n_positional = npos + nargs
        ndef = rng.randint(0, n_positional)
        var, kwarg = rng.random() < .5, rng.random() < .5
        ann = rng.random() < .3
        desc, c = [], 0
        for i in range(npos):
            c += 1
            desc.append(("posonly", "p%d" % i, (1000 + c) if i >= n_positional - ndef else None, ann))
        for i in range(nargs):
            c += 1
            desc.append(("arg", "a%d" % i, (1000 + c) if npos + i >= n_positional - ndef else None, ann))
        if var:
            desc.append(("vararg", "va", None, ann))
        for i in range(nkw):
            desc.append(("kwonly", "k%d" % i, (5000 + i) if rng.random() < rng.choice([.1, .5, .9]) else None, ann))
        if kwarg:
            desc.append(("kwarg", "kw", None, ann))
        if desc:
            items.append((desc, bool(nkw and not var), False))
    parts = core.pmap(_work, tw.batches(items, 200), init=tw.init_state, initargs=(bins,))
    for p in parts:
        res.merge(p)
    res.exhaustive = True
    res.cover["shape_bounds"] = {"posonly<=": shape[0], "args<=": shape[1], "kwonly<=": shape[2], "vararg": "0/1", "kwarg": "0/1",
                                 "defaults": "all legal subsets", "annotations": "on/off", "forms": ["def", "lambda"]}
    res.rule = ("all signatures with posonly<=%d, args<=%d, vararg 0/1, kwonly<=%d, kwarg 0/1, every legal default subset, annotations on/off, in def and "
                "lambda form (exhaustive within these bounds); each default is a distinct integer; a case is one signature text" % shape[:3])
    res.assumptions = ["default feature set (the conversion is unimplemented under all-nodes-with-ranges)"]


def replay(w):
    bins = core.build([VARIANT])
    h = core.Harness(bins[VARIANT])
    print(h.call("args", [], w["witness"]["text"])[:2000])
    return 0
