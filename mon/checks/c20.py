"""C20: str.format templates split into the same fields as Python's.

Differential oracle: _string.formatter_parser / _string.formatter_field_name_split. Exhaustive over a 10-symbol
alphabet up to length 5 (6 in thorough), random beyond.
"""
import _string
import itertools
import json
from collections import Counter

from .. import core, treework as tw

VARIANT = "deflt-chk"
ALPHA = "{}[]!:.0aé"


def q(s):
    return s.encode("utf-8", "surrogatepass").hex()


def py_template(t):
    try:
        out = []
        for lit, name, spec, conv in _string.formatter_parser(t):
            if lit:
                if out and out[-1][0] == "L":
                    out[-1] = ("L", out[-1][1] + lit)
                else:
                    out.append(("L", lit))
            if name is not None:
                out.append(("F", name, conv, spec))
        return ("OK", out)
    except ValueError as e:
        return ("ERR", str(e))


def rs_template(line):
    parts = line.split("\t", 1)
    if parts[0] == "OK":
        out = []
        for p in json.loads(parts[1]):
            if p["_t"] == "Literal":
                lit = p["_a"][0]
                if out and out[-1][0] == "L":
                    out[-1] = ("L", out[-1][1] + lit)
                else:
                    out.append(("L", lit))
            else:
                c = p["conversion_spec"]
                out.append(("F", p["field_name"], c["_c"] if c else None, p["format_spec"]))
        return ("OK", out)
    if parts[0] == "ERR":
        return ("ERR", parts[1])
    return ("PANIC", line[:200])


def spec_depth(t):
    """maximum brace nesting inside any format spec (0 = no nested field)"""
    d = m = 0
    for c in t:
        if c == "{":
            d += 1
            m = max(m, d)
        elif c == "}":
            d = max(0, d - 1)
    return m


# ---- a transliteration of the crate's present template scanner (format/src/format.rs FormatString::from_str), used
# only to pin down the known deviations: an observation belongs to a known class only if the crate did exactly what
# this model does, so any *other* behaviour in the same region is reported
def _m_literal(text):
    res, cur = "", text
    while cur:
        c = cur[0]
        if c in "{}":
            if len(cur) < 2 or cur[1] != c:
                return ("OK", ("L", res), cur) if res else ("ERR", "UnescapedStartBracketInLiteral")
            cur = cur[2:]
        else:
            cur = cur[1:]
        res += c
    return ("OK", ("L", res), "")


def _m_in_brackets(text):
    left, right, split = "", "", False
    i, n = 0, len(text)
    while i < n:
        ch = text[i]
        i += 1
        if ch == "[":
            if split:
                right += ch
            else:
                left += ch
            while i < n:
                nc = text[i]
                i += 1
                if split:
                    right += nc
                else:
                    left += nc
                if nc == "]":
                    break
                if i >= n:
                    return ("ERR", "MissingRightBracket")
        elif ch == ":" and not split:
            split = True
        elif split:
            right += ch
        else:
            left += ch
    parts = left.split("!", 1)
    conv = None
    if len(parts) == 2:
        if len(parts[1]) != 1:
            return ("ERR", "UnknownConversion")
        conv = parts[1]
    return ("OK", ("F", parts[0], conv, right if split else ""))


def _m_spec(text):
    nested, end, left = False, None, ""
    for idx, c in enumerate(text):
        if idx == 0:
            if c != "{":
                return ("ERR", "MissingStartBracket")
        elif c == "{":
            if nested:
                return ("ERR", "InvalidFormatSpecifier")
            nested = True
            left += c
        elif c == "}":
            if nested:
                nested = False
                left += c
            else:
                end = idx
                break
        else:
            left += c
    if end is None:
        return ("ERR", "UnmatchedBracket")
    r = _m_in_brackets(left)
    if r[0] == "ERR":
        return r
    return ("OK", r[1], text[end + 1:])


def model_template(text):
    cur, out = text, []
    while cur:
        r = _m_literal(cur)
        if r[0] == "ERR":
            r = _m_spec(cur)
        if r[0] == "ERR":
            return r
        part = r[1]
        if part[0] == "L" and out and out[-1][0] == "L":
            out[-1] = ("L", out[-1][1] + part[1])
        else:
            out.append(part)
        cur = r[2]
    return ("OK", out)


def classify_template(t, py, rs):
    if rs[0] != "PANIC" and _norm(rs) != _norm(model_template(t)):
        return None
    return _classify_template(t, py, rs)


def _norm(r):
    return (r[0], [tuple(x) for x in r[1]]) if r[0] == "OK" else (r[0], r[1].split("(")[0])


def _classify_template(t, py, rs):
    """Known deviations all concern an index bracket `[` inside a replacement field: Python scans `[`...`]` as an
    opaque unit (so `!`, `:`, `{`, `}` inside it belong to the field name, and a missing `]` is an error of its
    own), this crate looks for `!` / `:` / braces first."""
    if rs[0] == "PANIC":
        return None
    plain = t.replace("{{", "\0\0").replace("}}", "\0\0")
    depth = 0
    for ch in plain:
        if ch == "{":
            depth += 1
        elif ch == "}":
            depth = max(0, depth - 1)
        elif ch == "[" and depth > 0:
            return "index-bracket-not-scanned-as-opaque-unit"
    if py[0] == "ERR" and "unexpected '{' in field name" in py[1] and rs[0] == "OK":
        return "brace-inside-field-name-accepted"
    import re
    if re.search(r"![{}:]", t) and (py[0] != rs[0]):
        return "conversion-character-brace-or-colon-handled-differently"
    return None


def py_field(n):
    try:
        first, rest = _string.formatter_field_name_split(n)
        return ("OK", first, [(bool(a), v) for a, v in rest])
    except ValueError as e:
        return ("ERR", str(e))


def rs_field(line):
    parts = line.split("\t", 1)
    if parts[0] == "OK":
        d = json.loads(parts[1])
        f = d["first"]
        if f == "@Auto":
            first = ""
        elif f["_t"] == "Index":
            first = int(f["_a"][0]["_n"])
        else:
            first = f["_a"][0]
        rest = []
        for p in d["rest"]:
            if p["_t"] == "Attribute":
                rest.append((True, p["_a"][0]))
            elif p["_t"] == "Index":
                rest.append((False, int(p["_a"][0]["_n"])))
            else:
                rest.append((False, p["_a"][0]))
        return ("OK", first, rest)
    if parts[0] == "ERR":
        return ("ERR", parts[1])
    return ("PANIC", line[:200])


def _work(st, job):
    res = core.Result("C20", "", 0)
    h = st[VARIANT]
    kind, items = job
    enumerated = False
    if kind in ("tenum", "fenum"):
        # (alphabet, prefix, total length): every string of that length with that prefix, generated here; distinct by
        # construction, so they are counted instead of hashed
        alpha, prefix, n = items
        items = [prefix + "".join(x) for x in itertools.product(alpha, repeat=n - len(prefix))]
        kind = kind[0]
        enumerated = True
    lines = h.lines("tmpl", ["%s\t%s" % (kind, q(t)) for t in items])
    for t, ln in zip(items, lines):
        wit = {"op": "tmpl", "line": "%s\t%s" % (kind, q(t))}
        if enumerated:
            res.evaluations += 1
            res.distinct_extra += 1
        if kind == "t":
            if spec_depth(t) > 2:
                res.counters["skipped: spec nests deeper than one level"] += 1
                continue
            if not enumerated:
                res.seen("t" + t, nontrivial=len(t) > 0)
            py, rs = py_template(t), rs_template(ln)
            res.counters["template:py-%s/rust-%s" % (py[0], rs[0])] += 1
            if py[0] == rs[0] and (py[0] == "ERR" or py[1] == rs[1]):
                continue
            cls = classify_template(t, py, rs)
            res.add(cls or ("unlisted:panic" if rs[0] == "PANIC" else "unlisted:template-split-differs"), {"template": t, "python": py, "rust": rs}, wit)
        else:
            if not enumerated:
                res.seen("f" + t, nontrivial=len(t) > 0)
            py, rs = py_field(t), rs_field(ln)
            res.counters["field:py-%s/rust-%s" % (py[0], rs[0])] += 1
            if py[0] == rs[0] and (py[0] == "ERR" or py[1:] == rs[1:]):
                continue
            res.add(classify_field(t, py, rs) or ("unlisted:panic" if rs[0] == "PANIC" else "unlisted:field-name-split-differs"), {"name": t, "python": py, "rust": rs}, wit)
    if items:
        res.sample({"kind": kind, "text": items[len(items) // 2]})
    return res


def classify_field(t, py, rs):
    return None


def run(res):
    thorough = res.tier == "thorough"
    bins = core.build([VARIANT])
    rng = core.rng_for(res.seed, "c20")
    T = []
    maxlen = 7 if thorough else 6
    for n in range(0, 5):
        T += ["".join(x) for x in itertools.product(ALPHA, repeat=n)]
    enum_jobs = [("tenum", (ALPHA, "".join(pre), n)) for n in range(5, maxlen + 1) for pre in itertools.product(ALPHA, repeat=n - 4)]
    for _ in range(60000 if thorough else 8000):
        T.append("".join(rng.choice(ALPHA + "xyz 12") for _ in range(rng.randint(maxlen + 1, 30))))
    for _ in range(20000 if thorough else 3000):
        # well-formed-ish templates
        s = ""
        for _ in range(rng.randint(1, 4)):
            s += rng.choice(["", "a", "{{", "}}", "é ", "x:y"])
            name = rng.choice(["", "0", "a", "a.b", "0.x", "a[0]", "a[k]", "a[0].b[c]", "é", "a.b.c", "12", "a[]", "a..b", "[0]", ".a"])
            conv = rng.choice(["", "", "!r", "!s", "!a", "!x", "!"])
            spec = rng.choice(["", "", ":", ":>10", ":{w}", ":{w}.{p}", ":{a.b[0]!r}", ":é<5", ":!r", "::"])
            s += "{" + name + conv + spec + "}"
        T.append(s)
    Fn = []
    alpha2 = "[].0a-é "
    fmax = 7 if thorough else 6
    for n in range(0, 5):
        Fn += ["".join(x) for x in itertools.product(alpha2, repeat=n)]
    enum_jobs += [("fenum", (alpha2, "".join(pre), n)) for n in range(5, fmax + 1) for pre in itertools.product(alpha2, repeat=n - 4)]
    for _ in range(20000 if thorough else 4000):
        Fn.append("".join(rng.choice(alpha2 + "b1_") for _ in range(rng.randint(5, 16))))
    jobs = [("t", x) for x in tw.batches(T, 8000)] + [("f", x) for x in tw.batches(Fn, 8000)] + enum_jobs
    parts = core.pmap(_work, jobs, init=tw.init_state, initargs=(bins,))
    for p in parts:
        res.merge(p)
    res.exhaustive = True
    res.cover["templates"] = len(T) + sum(len(ALPHA) ** 4 for k, _ in enum_jobs if k == "tenum")
    res.cover["field_names"] = len(Fn) + sum(len(alpha2) ** 4 for k, _ in enum_jobs if k == "fenum")
    res.rule = ("templates: every string over {%s} up to length %d (exhaustive), random strings to 30, structured templates with names/conversions/specs incl. one level "
                "of nested fields; field names: every string over {[ ] . 0 a - é space} up to length %d, random to 16; a case is one text" % (" ".join(ALPHA), maxlen, fmax))
    res.assumptions = ["CPython's _string.formatter_parser / formatter_field_name_split are the reference"]


def replay(w):
    bins = core.build([VARIANT])
    h = core.Harness(bins[VARIANT])
    print(h.lines("tmpl", [w["witness"]["line"]]))
    return 0
