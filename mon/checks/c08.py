"""C08: layout never changes the tree.

Relational (metamorphic) monitor: parse(p) vs parse(p') for layout-only rewrites p' of p. The rewriter is itself
checked: p' is used only if the reference gives p and p' equal trees, so a rewriter bug only reduces coverage.
"""
import ast
import json
from collections import Counter

from .. import core, layout, pyref, treework as tw

VARIANT = "full"


def ref_dump(text):
    try:
        if text.startswith("﻿"):
            b = text.encode("utf-8", "surrogatepass")
            if not pyref.cookie_safe(b):
                return None
            return ast.dump(ast.parse(b))
        return ast.dump(ast.parse(text))
    except (SyntaxError, ValueError, RecursionError, MemoryError):
        return None


def canon(dump):
    t = pyref.rust_tree(dump)
    return json.dumps(pyref.erase(t, drop=("_r", "_awd", "simple")), sort_keys=True, default=repr)


def _parse(h, text):
    rep = h.json("parse", ["exec", 0], text)
    if "ok" in rep:
        return ("ok", canon(rep["ok"]), rep)
    if "panic" in rep:
        return ("panic", None, rep)
    return ("err", None, rep)


def check_pair(h, res, tag, p, q, names, base=None):
    wit = {"op": "parse-pair", "original": p, "rewritten": q, "rewrites": names, "tag": tag}
    a = base or _parse(h, p)
    b = _parse(h, q)
    res.seen(q)
    for n in names:
        res.cover.setdefault("rewrites_applied", Counter())[n] += 1
    if a[0] == "panic" or b[0] == "panic":
        res.add("unlisted:panic", {"orig": a[2] if a[0] == "panic" else None, "rewritten": b[2] if b[0] == "panic" else None}, wit)
        return a
    if a[0] != b[0]:
        bad_text, bad = (p, a) if a[0] == "err" else (q, b)
        try:
            pt = pyref.py_tree(bad_text)
            cls = tw.classify_reject(bad_text, "exec", bad[2], pt)
        except pyref.PyReject:
            cls = "unlisted:rust-rejects"
        cls = cls if not cls.startswith("unlisted") else "unlisted:acceptance-changes-with-layout"
        res.add(cls, {"rewrites": names, "accepted": "original" if a[0] == "ok" else "rewritten", "err": bad[2].get("err"), "offset": bad[2].get("offset"),
                      "near": bad_text.encode()[max(0, bad[2].get("offset", 0) - 25):bad[2].get("offset", 0) + 25].decode("utf-8", "replace")}, wit)
        return a
    if a[0] == "err":
        res.counters["both rejected (C01's business)"] += 1
        return a
    if a[1] != b[1]:
        d = pyref.Diff(q.encode("utf-8", "surrogatepass"), check_ranges=False)
        d.go(pyref.erase(pyref.rust_tree(b[2]["ok"]), drop=("simple",)), pyref.erase(pyref.rust_tree(a[2]["ok"]), drop=("simple",)))
        first = d.tree[0] if d.tree else ("?", "?", "?", "?")
        res.add(classify_tree(first, names), {"rewrites": names, "path": first[1][-80:], "rewritten": first[2], "original": first[3]}, wit)
    else:
        res.counters["pairs-equal"] += 1
    return a


def classify_tree(first, names):
    # known C01 deviation that redundant parentheses make visible: `match x,:` keeps `x`, `match (x,):` gives the tuple
    if first[1].endswith("Match.subject") and (first[2].startswith("Tuple@") != first[3].startswith("Tuple@")):
        return "match-subject-trailing-comma-not-tuple"
    # the same with a subject that is itself a tuple display: `match (a, b),:` keeps the inner tuple, `match ((a, b),):` gives the
    # one-element tuple that holds it
    if first[1].endswith("Match.subject/Tuple.elts") and first[2] != first[3] and "'len 1'" in (first[2], first[3]):
        return "match-subject-trailing-comma-not-tuple"
    return "unlisted:tree-changes-with-layout"


def _work(st, batch):
    h = st[VARIANT]
    res = core.Result("C08", "", 0)
    for tag, text, seed, nvariants in batch:
        base_ref = ref_dump(text)
        if base_ref is None:
            res.counters["reference-rejects-original"] += 1
            continue
        rng = core.rng_for(seed, "c08", tag)
        base = None
        singles = list(layout.REWRITES)
        rng.shuffle(singles)
        plans = [[n] for n in singles[:nvariants]] + [None] * nvariants
        for plan in plans:
            if plan is None:
                new, names = layout.compose(text, rng, k=rng.randint(2, 5))
            else:
                new, names = layout.compose(text, rng, names=plan)
            if new is None:
                res.counters["rewrite-not-applicable"] += 1
                continue
            if pyref.tab_after_space_lines(new) > pyref.tab_after_space_lines(text):
                res.counters["rewrite-discarded: creates a tab after a space in leading whitespace (outside the quantifier)"] += 1
                continue
            if ref_dump(new) != base_ref:
                res.counters["rewrite-discarded-by-reference-equality"] += 1
                continue
            base = check_pair(h, res, tag, text, new, names, base)
        if len(res.samples) < 2 and len(text) < 200:
            res.sample({"tag": tag, "text": text})
    return res


def run(res):
    thorough = res.tier == "thorough"
    bins = core.build([VARIANT])
    progs = tw.corpus_programs(res.seed, 1200 if thorough else 150) + tw.generated_programs(res.seed, 12000 if thorough else 4000)
    progs = [p for p in progs if len(p[1]) < 60000]
    items = [(tag, text, res.seed, 6 if thorough else 3) for tag, text in progs]
    parts = core.pmap(_work, tw.batches(items, 10), init=tw.init_state, initargs=(bins,))
    for p in parts:
        res.merge(p)
    missing = sorted(set(layout.REWRITES) - set(res.cover.get("rewrites_applied", {})))
    if missing:
        res.inconclusive.append("rewrites never applied: %s" % missing)
    res.rule = ("valid programs (corpus + generator) x layout-only rewrites (LF/CRLF/CR/mixed endings, trailing blanks, blank and comment-only lines, end-of-line comments, "
                "re-indentation incl. tabs, form feeds, BOM, backslash joins at depth 0, line breaks and comments inside brackets, token spacing, redundant parentheses) "
                "singly and in seeded compositions of 2-5; a pair counts only if the reference gives both texts the same tree; a case is one rewritten text")
    res.assumptions = ["CPython ast equality (without positions) decides what is layout-only", "trees compared modulo ranges and AnnAssign.simple"]


def replay(w):
    bins = core.build([VARIANT])
    h = core.Harness(bins[VARIANT])
    wi = w["witness"]
    r = core.Result("C08", "replay", 0)
    check_pair(h, r, "replay", wi["original"], wi["rewritten"], wi.get("rewrites", []))
    for o in r.obs:
        print(o.cls, o.detail)
    return 1 if r.obs else 0
