"""C10: cargo feature choices do not change what is parsed.

Relational monitor across four builds of the same source: default, full-lexer, all-nodes-with-ranges (optional
ranges erased before comparison) and num-bigint. Acceptance, tree, mandatory ranges and the error must be equal.
"""
import json
import zlib
from collections import Counter

from .. import core, layout, pyref, treework as tw
from . import c09

VARIANTS = ["deflt", "fulllex", "full", "numbig"]
OPTIONAL = {"Module", "Interactive", "Expression", "ModModule", "ModInteractive", "ModExpression", "comprehension", "withitem", "match_case", "arguments"}


def erase_optional(n):
    if isinstance(n, dict):
        out = {}
        for k, v in n.items():
            if k == "_awd":
                continue
            if k == "_r" and n.get("_t") in OPTIONAL:
                continue
            out[k] = erase_optional(v)
        return out
    if isinstance(n, list):
        return [erase_optional(x) for x in n]
    return n


def outcome(rep):
    if "ok" in rep:
        return ("ok", json.dumps(erase_optional(pyref.rust_tree(rep["ok"])), sort_keys=True, default=repr))
    if "panic" in rep:
        return ("panic", rep["panic"], rep.get("loc"))
    return ("err", rep["err"], rep["offset"])


def entry_outcome(rep, name):
    t = c09.tree_of(rep, name == "Constant")
    if t[0] == "ok":
        return ("ok", json.dumps(erase_optional(t[1]), sort_keys=True, default=repr))
    return t


def check_text(st, res, tag, text, mode):
    outs = {}
    for v in VARIANTS:
        outs[v] = outcome(st[v].json("parse", [mode, 0], text))
        if outs[v][0] == "panic":
            res.add("unlisted:panic", {"variant": v, "panic": outs[v][1:]}, {"op": "parse", "variant": v, "mode": mode, "text": text, "tag": tag})
    res.seen(mode + "\0" + text)
    base = outs["deflt"]
    res.counters["outcome:" + base[0]] += 1
    for v in VARIANTS[1:]:
        if outs[v] != base:
            detail = {"variant": v, "default": base[:1] + (base[1][:80],) if base[0] != "ok" else "ok", "other": outs[v][:1] + (str(outs[v][1])[:80],) if outs[v][0] != "ok" else "ok"}
            if base[0] == "ok" and outs[v][0] == "ok":
                d = pyref.Diff(text.encode("utf-8", "surrogatepass"), check_ranges=True)
                d.go(json.loads(outs[v][1]), json.loads(base[1]))
                detail["first"] = (d.tree[:1] or [x[:4] for x in d.ranges[:1]])
            elif base[0] == "err" and outs[v][0] == "err":
                detail["errors"] = [base[1:], outs[v][1:]]
            res.add(classify(v, base, outs[v], text), detail, {"op": "parse", "variants": ["deflt", v], "mode": mode, "text": text, "tag": tag})
    # every entry point (typed parsers, pre-lexed streams, the deprecated functions), not only `parse`
    if len(text) < 3000 and (tag.startswith("softkw-comments") or zlib.crc32(text.encode("utf-8", "surrogatepass")) % 4 == 0):
        ents = {v: st[v].json("entry", [0], text) for v in VARIANTS}
        res.counters["entry-point sets compared"] += 1
        for name, r0 in ents["deflt"].items():
            if name.endswith(".parse_tokens"):
                # the typed parsers' parse_tokens takes an already filtered stream (it calls parse_filtered_tokens); the harness
                # hands it the raw stream of lex_starts_at, which under full-lexer holds trivia: not comparable, by contract
                continue
            b0 = entry_outcome(r0, name)
            for v in VARIANTS[1:]:
                o = entry_outcome(ents[v].get(name, {"err": "entry missing", "offset": -1}), name)
                if o != b0:
                    res.add("unlisted:entry-point-%s-differs-from-default" % v, {"entry": name, "variant": v, "default": b0[:1] + (str(b0[1])[:80],), "other": o[:1] + (str(o[1])[:80],)},
                            {"op": "entry", "variants": ["deflt", v], "entry": name, "text": text, "tag": tag})
    # token level: full-lexer tokens minus comments / non-logical newlines == default tokens
    l0 = st["deflt"].json("lex", [mode, 0], text)
    l1 = st["fulllex"].json("lex", [mode, 0], text)
    if "toks" in l0 and "toks" in l1:
        filt = [t for t in l1["toks"] if t[0] not in ("Comment", "NonLogicalNewline")]
        if filt != l0["toks"] or l0["err"] != l1["err"]:
            res.add("unlisted:token-streams-differ-between-lexer-configurations", {"n_default": len(l0["toks"]), "n_full_filtered": len(filt), "err": [l0["err"], l1["err"]]},
                    {"op": "lex", "variants": ["deflt", "fulllex"], "mode": mode, "text": text, "tag": tag})
        res.counters["token-streams-compared"] += 1


def classify(v, base, other, text):
    return "unlisted:%s-differs-from-default" % v


def _work(st, batch):
    res = core.Result("C10", "", 0)
    for tag, text, mode in batch:
        check_text(st, res, tag, text, mode)
        if len(res.samples) < 2 and len(text) < 150:
            res.sample({"tag": tag, "text": text, "mode": mode})
    return res


SOFT_COMMENTS = [
    "# c\nmatch x:\n    # c\n    case 1: pass\n", "match x: # c\n case 1: # c\n  pass\n", "x = 1 # c\ntype X = int # c\n", "# c\ntype X = int\n", "\n\n# c\n\nmatch (\n # c\n x\n):\n\n case _: pass\n",
    "if x:\n    # c\n    match y:\n        # c\n\n        case _:\n            pass\n", "match = 1 # c\n# c\ncase = 2\n", "match \\\n x:\n case \\\n  _: pass\n", "x = [ # c\n 1, # c\n\n 2 # c\n] # c\n",
    "x = 1 \\\n  + 2 # c\n", "def f( # c\n a, # c\n): # c\n  pass # c\n", "# only a comment", "# c\n\n# c\n", "x = 1;# c\n", "if x: # c\n  pass\n# c\nelse: # c\n  pass\n", "\\\nx\n", "(\n# c\n)\n", "type X = ( # c\n int\n)\n",
    "match x:\n case _: pass\n# c\nmatch y:\n case _: pass\n", "class C:\n  # c\n  type X = int\n  # c\n  match = 1\n", "f'''{x # no comment here\n}''' if False else 0\n",
]


def run(res):
    thorough = res.tier == "thorough"
    bins = core.build_parallel(VARIANTS)
    rng = core.rng_for(res.seed, "c10")
    items = []
    progs = tw.corpus_programs(res.seed, 1500 if thorough else 200) + tw.generated_programs(res.seed, 12000 if thorough else 4000)
    from .. import pep695
    for i in range(res.seed * 1000, res.seed * 1000 + (1500 if thorough else 500)):
        b = pep695.build(i)
        if b:
            progs.append(("pep695:%d" % i, b[0]))
    for tag, text in progs:
        items.append((tag, text, "exec"))
        if len(text) < 30000:
            new, names = layout.compose(text, rng, names=rng.sample(["blank_comment_lines", "eol_comments", "bracket_newlines", "backslash_joins", "form_feeds", "newline_style", "bom", "reindent", "tight_spacing", "token_spacing", "redundant_parens", "backslash_only_lines", "continuation_then_blank_line", "form_feeds_between_tokens", "eof_whitespace", "trailing_blanks"], 3))
            if new:
                items.append(("layout:%s:%s" % ("+".join(names), tag), new, rng.choice(["exec", "exec", "single"])))
            if len(text) < 4000:
                for m in c09.mutations(text, rng, 2):
                    items.append((tag + ":mut", m, rng.choice(["exec", "single", "eval"])))
    for tag, text in tw.generated_expressions(res.seed, 4000 if thorough else 1500):
        items.append((tag, text, "eval"))
    for i, s in enumerate(SOFT_COMMENTS):
        for mode in ("exec", "single"):
            items.append(("softkw-comments:%d" % i, s, mode))
            items.append(("softkw-comments-crlf:%d" % i, s.replace("\n", "\r\n"), mode))
    big = ["0", "1", "255", "0xff", "0o777", "0b1", str(2 ** 64), str(2 ** 64 - 1), hex(2 ** 127), "0b" + "1" * 200, "0o" + "7" * 100, "9" * 300, "1_000_000_000_000_000_000_000", "0x_ffff_ffff_ffff_ffff_ffff",
           "00000", "0_0", str(10 ** 100), "-" + str(2 ** 63), "1" + "0" * 1000]
    for i, s in enumerate(big):
        items.append(("bigint:%d" % i, "x = " + s + "\n", "exec"))
        items.append(("bigint-expr:%d" % i, s, "eval"))
    from .. import numlits
    for i, prog in enumerate(numlits.as_programs(numlits.boundary_literals(rng, thorough))):
        items.append(("numlits:%d" % i, prog, "exec"))
    parts = core.pmap(_work, tw.batches(items, 30), init=tw.init_state, initargs=(bins,))
    for p in parts:
        res.merge(p)
    res.rule = ("texts: corpus, generated programs/expressions, PEP 695 programs, layout rewrites that add comments / blank lines / continuations / form feeds / BOM before and "
                "inside statements (soft-keyword statements in particular), seeded mutations (invalid texts), %d directed comment/soft-keyword snippets, huge integer literals in "
                "every base; each parsed by four builds (default, full-lexer, all-nodes-with-ranges, num-bigint), a quarter of the shorter ones also through every other entry point; a case is (mode, text)" % len(SOFT_COMMENTS))
    res.assumptions = ["optional ranges (Mod*, arguments, comprehension, withitem, match_case, parameter-with-default) are erased before comparing", "integers compared by their decimal rendering"]


def replay(w):
    bins = core.build_parallel(VARIANTS)
    st = tw.State(bins)
    r = core.Result("C10", "replay", 0)
    check_text(st, r, "replay", w["witness"]["text"], w["witness"].get("mode", "exec"))
    for o in r.obs:
        print(o.cls, o.detail)
    return 1 if r.obs else 0
