"""C04: syntax rules the parser claims to enforce are enforced, with the right error.

Oracle by construction: each edit operator knows the rule it breaks, the error class that names the rule and the byte
span of the construct it damaged. The reference must reject the edited text too, except for the three rules this parser
deliberately enforces earlier/stricter (duplicate parameter names, repeated keyword arguments, tab after space).
"""
import io
import re
import token as T
from collections import Counter

from .. import core, derive, gen, pyref, treework as tw

VARIANT = "deflt"
EARLIER_THAN_REFERENCE = {"duplicate-parameter", "repeated-keyword", "tab-after-space"}


# ----------------------------------------------------------------------------- expectations per rule
def unwrap(err):
    """errors raised while parsing a replacement field are wrapped: FStringError(InvalidExpression(Lexical(X)))"""
    e = err or ""
    wrapped = False
    while True:
        m = re.match(r"Lexical\(FStringError\(InvalidExpression\((.*)\)\)\)$", e, re.S)
        if not m:
            return (e, wrapped)
        e, wrapped = m.group(1), True


def names_rule(rule, err, extra):
    e, _ = unwrap(err)
    if rule == "bracket-mismatch":
        return "NestingError" in e or re.match(r"UnrecognizedToken\((Rpar|Rsqb|Rbrace)", e) is not None
    if rule == "bracket-extra-closer":
        return "NestingError" in e
    if rule == "bracket-unclosed-at-eof":
        return e in ("Lexical(Eof)", "Eof") or "NestingError" in e
    if rule == "dedent-unknown-level":
        return "IndentationError" in e
    if rule == "tab-space-ambiguity":
        return "TabError" in e or "TabsAfterSpaces" in e
    if rule == "tab-after-space":
        return "TabsAfterSpaces" in e
    if rule == "bad-character":
        return e.startswith("Lexical(UnrecognizedToken { tok: ")
    if rule == "line-continuation":
        return "LineContinuationError" in e
    if rule == "malformed-number":
        return True   # no dedicated error class: any rejection located inside the literal names it
    if rule == "unterminated-string":
        return "EOL while scanning string literal" in e or e in ("Lexical(Eof)", "Lexical(StringError)", "Eof")
    if rule == "mix-bytes-text":
        return "cannot mix bytes and nonbytes literals" in e
    if rule == "non-ascii-bytes":
        return "bytes can only contain ASCII literal characters" in e
    if rule == "duplicate-parameter":
        return e == 'Lexical(DuplicateArgumentError("%s"))' % extra
    if rule == "default-order":
        return e == "Lexical(DefaultArgumentError)"
    if rule == "positional-after-keyword":
        return e == "Lexical(PositionalArgumentError)"
    if rule == "unpack-after-double-star":
        return e == "Lexical(UnpackedArgumentError)"
    if rule == "repeated-keyword":
        return e == 'Lexical(DuplicateKeywordArgumentError("%s"))' % extra
    if rule == "bare-star":
        return "named arguments must follow bare *" in e
    if rule == "parenthesised-star":
        return "cannot use starred expression here" in e or "cannot use double starred expression here" in e
    if rule == "as-underscore":
        return "cannot use '_' as a target" in e
    if rule == "fstring":
        # forms without a dedicated FStringError kind: any rejection located inside the literal counts
        return extra == "" or (err or "").startswith("Lexical(FStringError(" + extra)
    if rule == "invalid-escape":
        return "UnicodeError" in e or "StringError" in e
    return False


# ----------------------------------------------------------------------------- edit operators
class Site:
    __slots__ = ("rule", "text", "span", "extra", "note")

    def __init__(self, rule, text, span, extra=None, note=""):
        self.rule, self.text, self.span, self.extra, self.note = rule, text, span, extra, note


def bi(text, idx):
    """char index -> byte offset"""
    return len(text[:idx].encode("utf-8", "surrogatepass"))


def token_edits(text, rng, per_rule):
    toks = derive.tokens(text)
    if not toks or "\r" in text:
        return []
    P = derive.Positions(text)
    out = []
    closers = [t for t in toks if t.type == T.OP and t.string in ")]}"]
    rng.shuffle(closers)
    for t in closers[:per_rule]:
        i = P.idx(t.start)
        other = rng.choice([c for c in ")]}" if c != t.string])
        out.append(Site("bracket-mismatch", text[:i] + other + text[i + 1:], (bi(text, i), bi(text, i) + 1)))
    # extra closer at depth 0 after a complete simple statement token
    depth = 0
    cands = []
    for t in toks:
        if t.type == T.OP and t.string in "([{":
            depth += 1
        elif t.type == T.OP and t.string in ")]}":
            depth -= 1
        elif depth == 0 and t.type in (T.NAME, T.NUMBER) and not t.string in ("def", "class", "lambda"):
            cands.append(t)
    rng.shuffle(cands)
    for t in cands[:per_rule]:
        i = P.idx(t.end)
        c = rng.choice(")]}")
        out.append(Site("bracket-extra-closer", text[:i] + c + text[i:], (bi(text, i), bi(text, i) + 1)))
    # unclosed until end of file: delete the closer of a bracket pair of the last statement
    if closers:
        last = max(closers, key=lambda t: t.start)
        i = P.idx(last.start)
        rest = text[i + 1:]
        if rest.strip() == "" or re.fullmatch(r"[\s]*(#[^\n]*)?\s*", rest):
            out.append(Site("bracket-unclosed-at-eof", text[:i] + text[i + 1:], (0, len(text.encode("utf-8", "surrogatepass")) + 1)))
    # bad characters between tokens
    sig = [k for k in range(len(toks) - 1) if toks[k].type in (T.NAME, T.NUMBER, T.OP) and toks[k + 1].type in (T.NAME, T.NUMBER, T.OP) and toks[k].end[0] == toks[k + 1].start[0]]
    rng.shuffle(sig)
    for k in sig[:per_rule]:
        i = P.idx(toks[k].end)
        c = rng.choice(["$", "?", "`", "\x01", "\x7f", " ", "\x1b", " " if False else "¤"])
        out.append(Site("bad-character", text[:i] + " " + c + " " + text[i:], (bi(text, i) + 1, bi(text, i) + 1 + len(c.encode())), extra=c))
    for k in sig[per_rule:2 * per_rule]:
        i = P.idx(toks[k].end)
        tail = rng.choice([" ", "x", "#c", " 1"])
        out.append(Site("line-continuation", text[:i] + " \\" + tail + text[i:], (bi(text, i) + 1, bi(text, i) + 3 + len(tail))))
    # (a number written directly against a name / keyword is no site: the malformed text would glue to it and lex differently)
    nums = [t for t in toks if t.type == T.NUMBER and not (text[P.idx(t.end):P.idx(t.end) + 1].isalnum() or text[P.idx(t.end):P.idx(t.end) + 1] == "_")]
    rng.shuffle(nums)
    for t in nums[:per_rule]:
        i, j = P.idx(t.start), P.idx(t.end)
        bad = rng.choice(["1__0", "1_", "0x", "0b2", "0o8", "012", "1_e5", "0_x1", "1.5e+", "0b", "0O", "1e", "0x_", "00x1", "1_.5", "0o", "9e-", "0b12", "0xg", "1__2.5", "0_7_"])
        out.append(Site("malformed-number", text[:i] + bad + text[j:], (bi(text, i), bi(text, i) + len(bad)), note=bad))
    strs = [t for t in toks if t.type == T.STRING and "\n" not in t.string and not t.string.lstrip("rRbBuUfF").startswith(("'''", '"""')) and t.string.lstrip("rRbBuU")[:1] in "'\""]
    rng.shuffle(strs)
    for t in strs[:per_rule]:
        i, j = P.idx(t.start), P.idx(t.end)
        eol = text.find("\n", j)
        eol = len(text) if eol < 0 else eol
        while eol < len(text) and text[:eol].endswith("\\"):
            nxt = text.find("\n", eol + 1)
            eol = len(text) if nxt < 0 else nxt
        if "'" not in text[j:eol] and '"' not in text[j:eol] and "\\" not in t.string[-3:]:
            out.append(Site("unterminated-string", text[:j - 1] + text[j:], (bi(text, i), bi(text, eol) + 1)))
        # the whole implicit concatenation this literal belongs to
        k = toks.index(t)
        while k > 0 and toks[k - 1].type in (T.STRING, T.NL, T.COMMENT):
            k -= 1
        while toks[k].type != T.STRING:
            k += 1
        i0 = P.idx(toks[k].start)
        isb = "b" in t.string[:3].lower().split("'")[0].split('"')[0]
        if not t.string[:3].lower().startswith(("f", "rf", "fr")):
            add = " 'x'" if isb else " b'x'"
            out.append(Site("mix-bytes-text", text[:j] + add + text[j:], (bi(text, i0), bi(text, j) + len(add))))
        if isb and len(t.string) > 3:
            out.append(Site("non-ascii-bytes", text[:j - 1] + "é" + text[j - 1:], (bi(text, i), bi(text, j) + 2)))
    return out


def indentation_edits(text, rng, per_rule):
    if "\r" in text or "\t" in text:
        return []
    lines = text.split("\n")
    toks = derive.tokens(text)
    if not toks:
        return []
    # logical lines that start a statement at indentation >= 4 whose previous logical line is at the same level
    firsts = {}
    first = True
    for t in toks:
        if t.type in (T.NEWLINE,):
            first = True
        elif t.type in (T.NL, T.COMMENT, T.INDENT, T.DEDENT):
            continue
        elif first and t.type != T.ENDMARKER:
            firsts[t.start[0]] = t.start[1]
            first = False
    rows = sorted(firsts)
    out = []
    cands = [r for k, r in enumerate(rows) if k > 0 and firsts[r] >= 2 and firsts[rows[k - 1]] == firsts[r]]
    rng.shuffle(cands)
    for r in cands[:per_rule]:
        ind = firsts[r]
        lower = sorted({v for v in firsts.values() if v < ind})
        if not lower:
            continue
        new = ind - 1
        if new in lower or new == 0:
            continue
        L = list(lines)
        L[r - 1] = " " * new + L[r - 1][ind:]
        s = bi(text, sum(len(x) + 1 for x in lines[:r - 1]))
        out.append(Site("dedent-unknown-level", "\n".join(L), (s, s + len(L[r - 1].encode()) + 1)))
    for r in cands[per_rule:2 * per_rule]:
        ind = firsts[r]
        L = list(lines)
        L[r - 1] = " " * (ind - 1) + "\t" + L[r - 1][ind:] if ind >= 2 else L[r - 1]
        if L[r - 1] != lines[r - 1]:
            s = bi(text, sum(len(x) + 1 for x in lines[:r - 1]))
            out.append(Site("tab-after-space", "\n".join(L), (s, s + len(L[r - 1].encode()) + 1)))
    for r in cands[2 * per_rule:3 * per_rule]:
        ind = firsts[r]
        if ind == 8:
            L = list(lines)
            L[r - 1] = "\t" + L[r - 1][ind:]
            s = bi(text, sum(len(x) + 1 for x in lines[:r - 1]))
            out.append(Site("tab-space-ambiguity", "\n".join(L), (s, s + len(L[r - 1].encode()) + 1)))
    return out


def ast_edits(text, rng, per_rule):
    try:
        pt = pyref.py_tree(text)
    except pyref.PyReject:
        return []
    b = text.encode("utf-8", "surrogatepass")

    def ins(off, s):
        return (b[:off] + s.encode() + b[off:]).decode("utf-8", "surrogatepass")
    out = []
    nodes = list(pyref.walk(pt))
    rng.shuffle(nodes)
    count = Counter()
    for n, p, f in nodes:
        t = n["_t"]
        if t == "Call" and n.get("_r"):
            kws = [k for k in n["keywords"] if k.get("_r")]
            named = [k for k in kws if k["arg"] is not None]
            dstar = [k for k in kws if k["arg"] is None]
            if named and count["pak"] < per_rule:
                k = named[0]
                out.append(Site("positional-after-keyword", ins(k["_r"][1], ", zz_pos"), (n["_r"][0], n["_r"][1] + 8)))
                count["pak"] += 1
            if named and count["rk"] < per_rule and b[named[0]["_r"][0]:named[0]["_r"][0] + len(named[0]["arg"])] == named[0]["arg"].encode():
                k = named[-1]
                out.append(Site("repeated-keyword", ins(k["_r"][1], ", %s=0" % named[0]["arg"]), (n["_r"][0], n["_r"][1] + 4 + len(named[0]["arg"])), extra=named[0]["arg"]))
                count["rk"] += 1
            if dstar and count["ud"] < per_rule:
                k = dstar[0]
                out.append(Site("unpack-after-double-star", ins(k["_r"][1], ", *zz"), (n["_r"][0], n["_r"][1] + 5)))
                count["ud"] += 1
        if t == "ClassDef" and n.get("_r") and count["ck"] < per_rule:
            named = [k for k in n["keywords"] if k.get("_r") and k["arg"] is not None and b[k["_r"][0]:k["_r"][0] + len(k["arg"])] == k["arg"].encode()]
            if named:
                k = named[-1]
                end = n["body"][0]["_r"][0]
                out.append(Site("repeated-keyword", ins(k["_r"][1], ", %s=0" % named[0]["arg"]), (n["_r"][0], end + 4 + len(named[0]["arg"])), extra=named[0]["arg"], note="class"))
                count["ck"] += 1
        if t == "arguments":
            pos = n["posonlyargs"] + n["args"]
            every = pos + ([n["vararg"]] if n["vararg"] else []) + n["kwonlyargs"] + ([n["kwarg"]] if n["kwarg"] else [])
            every = [a for a in every if a.get("_r")]
            if not every:
                continue
            ndef = len(n["defaults"])
            span0 = min(a["_r"][0] for a in every) - 2
            ends = [a["_r"][1] for a in every] + [d["_r"][1] for d in n["defaults"] if pyref.is_node(d)] + [d["_r"][1] for d in n["kw_defaults"] if pyref.is_node(d)]
            span1 = max(ends)
            lam = p is not None and p["_t"] == "Lambda"
            # extent of each positional parameter incl. its default
            ext = {}
            plain = True
            for i, a in enumerate(pos):
                e = a["_r"][1]
                j = i - (len(pos) - ndef)
                if j >= 0 and pyref.is_node(n["defaults"][j]):
                    d = n["defaults"][j]["_r"]
                    if not b[:d[0]].rstrip(b" ").endswith(b"="):
                        plain = False    # parenthesised default: its end is not the end of the parameter
                    e = d[1]
                ext[id(a)] = (e, j >= 0)
            for kd in n["kw_defaults"]:
                if pyref.is_node(kd) and not b[:kd["_r"][0]].rstrip(b" ").endswith(b"="):
                    plain = False
            if not plain:
                continue
            if pos and count["dup"] < per_rule and b[pos[0]["_r"][0]:pos[0]["_r"][0] + len(pos[0]["arg"])] == pos[0]["arg"].encode():
                a = pos[0]
                e, hasdef = ext[id(a)]
                later_default = hasdef
                add = ", %s=0" % a["arg"] if later_default else ", %s" % a["arg"]
                out.append(Site("duplicate-parameter", ins(e, add), (span0, span1 + len(add) + 2), extra=a["arg"], note="lambda" if lam else "def"))
                count["dup"] += 1
            if n["kwonlyargs"] and count["dupk"] < per_rule and n["kwonlyargs"][-1].get("_r") and n["kwonlyargs"][0].get("_r") and b[n["kwonlyargs"][0]["_r"][0]:n["kwonlyargs"][0]["_r"][0] + len(n["kwonlyargs"][0]["arg"])] == n["kwonlyargs"][0]["arg"].encode():
                a = n["kwonlyargs"][-1]
                e = a["_r"][1]
                kd = n["kw_defaults"][-1]
                if pyref.is_node(kd):
                    e = kd["_r"][1]
                add = ", %s" % n["kwonlyargs"][0]["arg"]
                out.append(Site("duplicate-parameter", ins(e, add), (span0, span1 + len(add) + 2), extra=n["kwonlyargs"][0]["arg"], note="kwonly"))
                count["dupk"] += 1
            with_def = [a for a in pos if ext[id(a)][1]]
            if with_def and count["def"] < per_rule:
                a = with_def[0]
                out.append(Site("default-order", ins(ext[id(a)][0], ", zz_nd"), (span0, span1 + 10)))
                count["def"] += 1
            if not n["vararg"] and not n["kwonlyargs"] and count["star"] < per_rule:
                if n["kwarg"] is None:
                    e = max(ext[id(a)][0] for a in pos) if pos and not n["posonlyargs"] else None
                    if e is not None:
                        out.append(Site("bare-star", ins(e, ", *"), (span0, span1 + 6), note="at end"))
                        count["star"] += 1
                else:
                    ks = n["kwarg"]["_r"][0]
                    i = b.rfind(b"**", 0, ks)
                    if i >= 0:
                        out.append(Site("bare-star", ins(i, "*, "), (span0, span1 + 6), note="before **kwargs"))
                        count["star"] += 1
        if t == "Starred" and p is not None and p["_t"] in ("Tuple", "List", "Call") and n.get("_r") and count["ps"] < per_rule \
                and not (n["value"]["_t"] in ("BoolOp", "Compare", "IfExp", "Lambda", "NamedExpr") or (n["value"]["_t"] == "UnaryOp" and n["value"]["op"] == "Not")):
            r = n["_r"]
            out.append(Site("parenthesised-star", (b[:r[0]] + b"(" + b[r[0]:r[1]] + b")" + b[r[1]:]).decode("utf-8", "surrogatepass"), (r[0], r[1] + 2)))
            count["ps"] += 1
        if t == "MatchAs" and n.get("name") and n.get("pattern") is not None and n.get("_r") and count["as"] < per_rule:
            r = n["_r"]
            seg = b[r[0]:r[1]]
            m = re.search(rb"\bas\s+(\S+)\s*$", seg)
            if m:
                s = r[0] + m.start(1)
                out.append(Site("as-underscore", (b[:s] + b"_" + b[r[1]:]).decode("utf-8", "surrogatepass"), (r[0], r[1] + 2)))
                count["as"] += 1
    return out


def _after_parens(b, off):
    """skip closing parentheses of a parenthesised default right after `off`"""
    i = off
    while i < len(b) and b[i:i + 1] in (b" ", b")"):
        if b[i:i + 1] == b")":
            off = i + 1
        i += 1
    return off


# ----------------------------------------------------------------------------- enumerated invalid forms (W5)
FSTRING_BAD = [("f'{'", "UnclosedLbrace"), ("f'{x'", "UnclosedLbrace"), ("f'}'", "SingleRbrace"), ("f'a}b'", "SingleRbrace"), ("f'{x!z}'", "InvalidConversionFlag"), ("f'{x!}'", "InvalidConversionFlag"),
               ("f'{x!rr}'", ""), ("f'{}'", "EmptyExpression"), ("f'{ }'", "EmptyExpression"), ("f'{!r}'", "EmptyExpression"), ("f'{:x}'", "EmptyExpression"), ("f'{x:{y:{z}}}'", "ExpressionNestedTooDeeply"),
               ("f'{a b}'", "InvalidExpression"), ("f'{a +}'", "InvalidExpression"), ("f'{\\n}'", ""), ("f'{x\\\\}'", ""), ("f'{#}'", ""), ("f'{x #c}'", ""), ("f'{(}'", ""), ("f'{)}'", ""),
               ("f'{[}'", ""), ("f'{(]}'", "MismatchedDelimiter"), ("f'{x:{'", ""), ("f'{x:}}'", "SingleRbrace"), ("f'{=}'", "EmptyExpression"), ("f'{x=!z}'", "InvalidConversionFlag"), ("f'{lambda x: 1}'", ""),
               ("f'{x!r !s}'", ""), ("f'{{}'", "SingleRbrace"), ("f'{x}}'", "SingleRbrace"), ("f'{'a'}'", ""), ("rf'{'", "UnclosedLbrace"), ("f'''{'''", "UnclosedLbrace"), ("f'{x' 'y}'", "")]
def _empty_field_forms():
    """Replacement fields holding nothing but white space of every kind (blank, tab, form feed, line breaks in
    triple-quoted literals), bare and followed by a conversion, a spec, `=`; in every f-string prefix."""
    import ast as _ast
    out = []
    for ws in ("\t", "\x0c", " \t ", "\t\t", "  ", " \x0c"):
        for tail in ("", "!r", ":>5", "=", "!r:>5", ":{w}"):
            for pre, q in (("f", "'"), ("rf", '"'), ("F", "'" * 3), ("f", '"' * 3)):
                out.append(("%s%sa{%s%s}b%s" % (pre, q, ws, tail, q), "EmptyExpression"))
    for ws in ("\n", "\r\n", " \n ", "\n\t\n", "\r"):
        for tail in ("", "!r", ":>5"):
            for pre, q in (("f", "'" * 3), ("rf", '"' * 3)):
                out.append(("%s%s{%s%s}%s" % (pre, q, ws, tail, q), "EmptyExpression"))
    keep = []
    for lit, kind in out:
        try:
            _ast.parse("x = " + lit + "\n")
        except SyntaxError:
            keep.append((lit, kind))
    return keep


FSTRING_BAD += _empty_field_forms()
STRING_BAD = [("'abc", "unterminated-string"), ('"abc', "unterminated-string"), ("'''abc", "unterminated-string"), ("'abc\\", "unterminated-string"), ("'\\N{nope}'", "invalid-escape"), ("'\\x4'", "invalid-escape"),
              ("'\\xg0'", "invalid-escape"), ("'\\U00110000'", "invalid-escape"), ("'\\u12'", "invalid-escape"), ("'\\N{'", "invalid-escape"), ("'\\N'", "invalid-escape"), ("b'\\xg'", "invalid-escape"),
              ("'a' b'b'", "mix-bytes-text"), ("b'a' 'b'", "mix-bytes-text"), ("b'a' f'{x}'", "mix-bytes-text"), ("b'é'", "non-ascii-bytes"), ("rb'日'", "non-ascii-bytes"), ("b'''\né'''", "non-ascii-bytes")]
def _non_ascii_bytes_forms():
    """Every bytes prefix x quote style x position of one non-ASCII character (2-, 3- and 4-byte): at the start, in the
    middle, at the end, directly after a backslash, after a complete escape, after an escaped backslash, after a
    backslash-newline (triple-quoted), and in the second piece of an implicit concatenation."""
    out = []
    for prefix in ("b", "B", "rb", "Rb", "bR", "BR", "br"):
        for q in ("'", '"', "'''", '"""'):
            for ch in ("é", "€", "𝄞"):
                bodies = [ch, "a" + ch + "z", "az" + ch, "\\" + ch, "a\\" + ch + "cd", "\\n" + ch, "\\\\" + ch, "\\x41" + ch]
                if len(q) == 3:
                    bodies += ["\\\n" + ch, "\n" + ch + "\n"]
                for body in bodies:
                    out.append((prefix + q + body + q, "non-ascii-bytes"))
    for ch in ("é", "日"):
        out.append(("b'a' b'%s'" % ch, "non-ascii-bytes"))
        out.append(("b'a' b'\\%s'" % ch, "non-ascii-bytes"))
    return out


def _bad_hex_escape_forms():
    """\\x / \\u / \\U escapes with one non-hex character at every digit position (signs, blanks, underscore, letters
    past f, a quote, a multi-byte digit), truncated at every length, in text, bytes and f-string literals."""
    out = []
    for esc, n, prefixes in (("x", 2, ("", "b", "f")), ("u", 4, ("", "f")), ("U", 8, ("", "f"))):
        good = "0000004" + "1"
        good = good[-n:]
        for prefix in prefixes:
            for pos in range(n):
                for bad in ("+", "-", " ", "_", "g", "G", "x", ".", "\uff11", "\u0661"):
                    if prefix == "b" and ord(bad) > 127:
                        continue
                    digits = good[:pos] + bad + good[pos + 1:]
                    out.append(("%s'a\\%s%sz'" % (prefix, esc, digits), "invalid-escape"))
            for k in range(n):
                out.append(("%s'\\%s%s'" % (prefix, esc, good[:k]), "invalid-escape"))
                out.append(("%s'\\%s%s' %s'x'" % (prefix, esc, good[:k], "b" if prefix == "b" else ""), "invalid-escape"))
    for name in ("", " ", "nope", "LATIN SMALL LETTER", "LATIN SMALL LETTER A ", "{LATIN SMALL LETTER A}"):
        out.append(("'\\N{%s}'" % name, "invalid-escape"))
        out.append(("f'\\N{%s}{x}'" % name, "invalid-escape"))
    return out


STRING_BAD += _non_ascii_bytes_forms()
STRING_BAD += _bad_hex_escape_forms()
NUMBER_BAD = ["1__0", "1_", "0x", "0b2", "0o8", "012", "1_e5", "0_x1", "1.5e+", "0b", "0O", "1e", "0x_", "1_.5", "0o", "9e-", "0b12", "0xg", "0_7_", "1.2.3", "1e5e5", "0_", "1j2", "0x1.5", "1_j", "0b1_", "0o1__2", "00_1", "0127", "1e1_", "1__e1", ".5_", "1.e_5"]
def _leading_zero_forms():
    """Decimal literals with a redundant leading zero, with underscores in every place (the check that rejects them
    looks at the text after the underscores are stripped)."""
    import ast as _ast
    out = []
    for z in ("0", "00", "0_0", "000"):
        for sep in ("", "_"):
            for tail in ("7", "12", "1_2", "10", "9", "007", "1_0_0", "90", "1" * 25):
                lit = z + sep + tail
                try:
                    _ast.parse("x = " + lit + "\n")
                except SyntaxError:
                    out.append(lit)
    return out


NUMBER_BAD += [x for x in _leading_zero_forms() if x not in NUMBER_BAD]


def _exponent_underscore_forms():
    """Float / imaginary literals with an underscore or nothing where an exponent digit must be: every mantissa shape x
    exponent letter x sign x digit pattern; only the ones the reference rejects are kept."""
    import ast as _ast
    out = []
    for mant in ("1", "1.", "1.5", ".5", "1_0.0_1", "0", "1_0"):
        for e in ("e", "E"):
            for sign in ("", "+", "-"):
                for digs in ("", "_", "_3", "3_", "3__0", "_3_", "3_0_", "__3"):
                    for suf in ("", "j"):
                        lit = mant + e + sign + digs + suf
                        try:
                            _ast.parse("x = " + lit + "\n")
                        except SyntaxError:
                            out.append(lit)
    return out


NUMBER_BAD += [x for x in _exponent_underscore_forms() if x not in NUMBER_BAD]
CONTEXTS = ["x = %s\n", "f(%s)\n", "if a:\n    y = [%s]\n", "class C:\n  def m(self): return (%s)\n", "é = (%s,)\n"]


def _cmp_strict(a, b):
    """The crate's documented comparison of two indentation levels (tabs, spaces): an order only if tabs and spaces do not
    pull in opposite directions, otherwise the tab size would decide: 'tab'."""
    if a[0] < b[0]:
        return -1 if a[1] <= b[1] else "tab"
    if a[0] > b[0]:
        return 1 if a[1] >= b[1] else "tab"
    return (a[1] > b[1]) - (a[1] < b[1])


def ladder_outcome(levels):
    """First indentation error of a ladder of lines with these leading-whitespace strings (tabs, then spaces), by the rule
    the lexer states for itself: every level an indentation is compared with must be comparable without knowing the tab
    size (else: tab error), and a dedent must arrive exactly at an open level (else: indentation error).
    Returns (line index, 'tab' | 'dedent') or None."""
    stack = [(0, 0)]
    for i, w in enumerate(levels):
        lv = (w.count("\t"), w.count(" "))
        c = _cmp_strict(lv, stack[-1])
        if c == "tab":
            return i, "tab"
        if c > 0:
            stack.append(lv)
        elif c < 0:
            while True:
                c = _cmp_strict(lv, stack[-1])
                if c == "tab":
                    return i, "tab"
                if c < 0:
                    stack.pop()
                elif c == 0:
                    break
                else:
                    return i, "dedent"
    return None


def indentation_ladders():
    """Nested blocks whose levels mix tabs and spaces, then one line that dedents: over one level, over several, to a level
    that is open, that never was, or that is only comparable with some of the open ones."""
    out = []
    levels = ["\t", "        ", "    ", "\t    ", "\t        ", "\t\t", "  ", "\t  ", "                ", "\t\t  "]
    for l1 in levels:
        for l2 in levels:
            for l3 in [None] + levels:
                for d in levels + [""]:
                    ws = [""] + [l1, l2] + ([l3] if l3 else []) + [d]
                    lines = ["if a:", l1 + "if b:", l2 + ("if c:" if l3 else "x")] + ([l3 + "x"] if l3 else []) + [d + "y"]
                    o = ladder_outcome(ws)
                    if o is None:
                        continue
                    i, what = o
                    if any(_cmp_strict((ws[k].count("\t"), ws[k].count(" ")), (ws[k - 1].count("\t"), ws[k - 1].count(" "))) != 1 for k in range(1, min(i, len(ws) - 1))):
                        continue   # an earlier line does not open its block: the parser's complaint about that comes first
                    start = sum(len(x) + 1 for x in lines[:i])
                    out.append(Site("tab-space-ambiguity" if what == "tab" else "dedent-unknown-level", "\n".join(lines) + "\n", (start, start + len(lines[i]) + 1),
                                    note="ladder " + "/".join(repr(x)[1:-1] for x in ws[1:])))
    return out


def enumerated(rng):
    out = indentation_ladders()
    for lit, kind in FSTRING_BAD:
        for c in CONTEXTS:
            i = c.index("%s")
            s = bi(c, i)
            out.append(Site("fstring", c % lit, (s, s + len(lit.encode()) + 1), extra=kind, note=lit))
    for lit, rule in STRING_BAD:
        for c in CONTEXTS:
            i = c.index("%s")
            s = bi(c, i)
            txt = c % lit
            end = len(txt.encode()) + 1 if rule == "unterminated-string" else s + len(lit.encode()) + 1
            out.append(Site(rule, txt, (s, end), note=lit))
    for lit in NUMBER_BAD:
        for c in CONTEXTS:
            i = c.index("%s")
            s = bi(c, i)
            out.append(Site("malformed-number", c % lit, (s, s + len(lit.encode())), note=lit))
    sigs = ["*", "a, *", "a=1, *", "*, **k", "a, /, *", "a, *, **k", "*,", "a, b, *, **kw", "*, **", "a, *, **"]
    out += signature_violations()
    out += call_argument_violations()
    for sg in sigs:
        for tpl in ("def f(%s): pass\n", "async def f(%s): pass\n", "x = lambda %s: 0\n", "class C:\n    def m(%s): pass\n"):
            i = tpl.index("%s")
            out.append(Site("bare-star", tpl % sg, (bi(tpl, i) - 1, bi(tpl, i) + len(sg) + 2), note=sg))
    for expr in ("(*a)", "(**a)", "x = (*a)", "f((*a))", "[(*a)]", "del (*a)", "for (*a) in b: pass", "(*a) = b", "((*a))", "print((**k))", "(* a)", "(*\na)"):
        out.append(Site("parenthesised-star", expr + "\n", (0, len(expr) + 1), note=expr))
    for pat in ("y as _", "_ as _", "[a, b] as _", "(1 | 2) as _", "C(x as _)", "{'k': v as _}", "[x as _, y]"):
        txt = "match s:\n    case %s: pass\n" % pat
        out.append(Site("as-underscore", txt, (18, 18 + len(pat) + 1), note=pat))
    return out


def call_argument_violations():
    """Exhaustive small scope: every argument list of up to 5 arguments over {positional, *iterable, name=value, **mapping}
    (and a repeated name) whose first offence is one of the three call-argument rules, in a call, a nested call, a
    decorator and a class header."""
    import itertools
    out = []
    forms = ["f(%s)\n", "x = g(h(%s), 1)\n", "@d(%s)\ndef f(): pass\n", "class K(%s): pass\n"]
    for n in range(2, 6):
        for seq in itertools.product("pskd", repeat=n):
            rule = None
            seen_k = seen_d = False
            for c in seq:
                if c == "p" and (seen_k or seen_d):
                    rule = "positional-after-keyword"
                elif c == "s" and seen_d:
                    rule = "unpack-after-double-star"
                if rule:
                    break
                seen_k |= c == "k"
                seen_d |= c == "d"
            if rule is None:
                continue
            parts = []
            for i, c in enumerate(seq):
                parts.append({"p": "p%d", "s": "*s%d", "k": "k%d=%d", "d": "**d%d"}[c] % ((i, i) if c == "k" else (i,)))
            sig = ", ".join(parts)
            for tpl in forms:
                i = tpl.index("%s")
                out.append(Site(rule, tpl % sig, (bi(tpl, i) - 1, bi(tpl, i) + len(sig) + 2), note=sig))
    # a repeated keyword separated from its first use by every other kind of argument
    for mid in ("", "k1=1, ", "*s, ", "**d, ", "k1=1, *s, **d, "):
        for pre in ("", "p, ", "*s0, "):
            sig = pre + "k=0, " + mid + "k=2"
            for tpl in forms:
                i = tpl.index("%s")
                out.append(Site("repeated-keyword", tpl % sig, (bi(tpl, i) - 1, bi(tpl, i) + len(sig) + 2), extra="k", note=sig))
    return out


def signature_violations():
    """Exhaustive small-scope parameter lists that violate the default-order or the duplicate-name rule, in four containers."""
    import itertools
    out = []
    forms = ["def f(%s): pass\n", "async def f(%s): pass\n", "x = lambda %s: 0\n", "class C:\n    def m(%s): pass\n"]

    def emit(rule, sig, extra=None):
        for tpl in forms:
            i = tpl.index("%s")
            out.append(Site(rule, tpl % sig, (bi(tpl, i) - 1, bi(tpl, i) + len(sig.encode()) + 2), extra=extra, note=sig))
    # default order: up to 2 positional-only + 2 ordinary parameters, every default mask with a non-default after a default
    for npos in range(0, 3):
        for nargs in range(0, 3):
            names = ["p%d" % i for i in range(npos)] + ["a%d" % i for i in range(nargs)]
            for mask in itertools.product([False, True], repeat=len(names)):
                if not any(mask[i] and not mask[j] for i in range(len(names)) for j in range(i + 1, len(names))):
                    continue
                parts = []
                for i, nm in enumerate(names):
                    parts.append(nm + ("=1" if mask[i] else ""))
                    if i == npos - 1:
                        parts.append("/")
                for tail in ("", ", *v", ", *, k", ", **kw"):
                    emit("default-order", ", ".join(parts) + tail)
    # duplicates: two slots of different (or the same) kind share one name
    slots = [("p", "{n}", "/"), ("a", "{n}", None), ("v", "*{n}", None), ("k", "{n}", None), ("w", "**{n}", None)]
    for i in range(len(slots)):
        for j in range(i, len(slots)):
            if i == j and slots[i][0] in ("v", "w"):
                continue
            parts = []
            for idx, (kind, fmt, after) in enumerate(slots):
                count = 2 if (i == j == idx) else 1
                use = idx in (i, j) or idx in (1,)
                if not use:
                    continue
                if kind == "k" and not any(s_[0] == "v" and (slots.index(s_) in (i, j)) for s_ in slots):
                    parts.append("*")
                for c in range(count):
                    nm = "dup" if idx in (i, j) else "other"
                    parts.append(fmt.format(n=nm))
                if after and idx in (i, j):
                    parts.append(after)
            emit("duplicate-parameter", ", ".join(parts), extra="dup")
    return out


def generated_signatures(rng, n):
    out = []
    for i in range(n):
        g = gen.Gen(core.rng_for(rng.random(), "sig", i), max_depth=2)
        ps = g.params(0, annotations=rng.random() < .5)
        form = rng.choice(["def f(%s): pass\n", "async def f(%s): pass\n", "lambda %s: 0\n", "class C:\n    @d(lambda %s: 0)\n    def m(self, q=(lambda %s: 1)): pass\n"])
        if "lambda" in form and ":" in ps:
            ps = g.params(0, annotations=False)
        out.append(form.replace("%s", ps))
    return out


# ----------------------------------------------------------------------------- checking
def reference_rejects(text):
    try:
        pyref.py_parse(text, "exec")
        return False
    except pyref.PyReject:
        return True


def check_site(h, res, site, tag):
    wit = {"op": "parse", "mode": "exec", "text": site.text, "rule": site.rule, "span": site.span, "tag": tag}
    refrej = reference_rejects(site.text)
    if not refrej and site.rule not in EARLIER_THAN_REFERENCE:
        res.counters["discarded: reference accepts the edited text (%s)" % site.rule] += 1
        return
    rep = h.json("parse", ["exec", 0], site.text)
    res.seen(site.rule + "\0" + site.text)
    res.cover.setdefault("rules_exercised", Counter())[site.rule] += 1
    if "panic" in rep:
        res.add("unlisted:panic", {"rule": site.rule, "panic": rep}, wit)
        return
    detail = {"rule": site.rule, "note": site.note, "err": rep.get("err"), "offset": rep.get("offset"), "span": site.span,
              "near": site.text.encode("utf-8", "surrogatepass")[max(0, site.span[0] - 10):site.span[1] + 10].decode("utf-8", "replace")[:80]}
    if "ok" in rep:
        res.add(classify_accept(site), detail, wit)
        return
    if not names_rule(site.rule, rep["err"], site.extra):
        res.add(classify_wrong_error(site, rep), detail, wit)
        return
    if not (site.span[0] <= rep["offset"] <= site.span[1]):
        res.add(classify_offset(site, rep), detail, wit)
        return
    # the error's own classification helpers name the rule too
    if not unwrap(rep["err"])[1] and "ie" in rep:
        want_ie = site.rule == "dedent-unknown-level"
        want_te = site.rule in ("tab-space-ambiguity", "tab-after-space")
        if rep["te"] != want_te or (want_ie and not rep["ie"]) or (rep["ie"] and not want_ie and "Indent" not in rep["err"]):
            res.add("unlisted:is_indentation_error/is_tab_error-disagree-with-the-rule", dict(detail, is_indentation_error=rep["ie"], is_tab_error=rep["te"]), wit)
            return
        res.counters["error helpers agree (is_indentation_error=%s is_tab_error=%s)" % (rep["ie"], rep["te"])] += 1
    if unwrap(rep["err"])[1]:
        res.counters["rule enforced inside an f-string field (wrapped error)"] += 1
    res.counters["rule-enforced:" + site.rule] += 1
    res.cover.setdefault("error_kinds", Counter())[re.sub(r'"[^"]*"', '"…"', rep["err"])[:60]] += 1


def classify_accept(site):
    if site.rule == "bare-star" and site.note in ("*, **k", "a, *, **k", "a, b, *, **kw", "before **kwargs", "a, /, *, **k", "*, **", "a, *, **"):
        return "bare-star-directly-before-kwargs-accepted"
    return "unlisted:rule-violation-accepted"


def _softkw_line_start(b, span_start, err_off):
    """start of a (possibly multi-physical-line) logical line beginning with match/case/type that holds both offsets"""
    pos = span_start
    for _ in range(8):
        ls = b.rfind(b"\n", 0, pos) + 1
        m = re.match(rb"[ \t\x0c]*(match|case|type)(?![A-Za-z0-9_\x80-\xff])", b[ls:ls + 40])
        if m and ls <= err_off:
            return ls
        if ls == 0:
            return None
        pos = ls - 1
    return None


def classify_offset(site, rep):
    b = site.text.encode("utf-8", "surrogatepass")
    if rep["err"].startswith("UnrecognizedToken(") and rep["offset"] < site.span[0] and _softkw_line_start(b, site.span[0], rep["offset"]) is not None:
        return "lexical-error-on-soft-keyword-line-reported-as-unexpected-name"
    if unwrap(rep["err"])[1] and site.rule != "fstring":
        # the violation sits in an expression inside a replacement field: the error is located at the start of the
        # field's expression, not at the construct
        if rep["offset"] < site.span[0] and b[:rep["offset"]].rstrip(b" ").endswith(b"{"):
            return "error-inside-fstring-field-located-at-field-start"
    return "unlisted:error-offset-outside-construct"


def classify_wrong_error(site, rep):
    # a lexical error on a logical line that starts with match/case/type: the soft-keyword look-ahead stops at the
    # lexical error, the keyword is demoted to a name and the parser reports that name instead of the lexical error
    m = re.match(r'UnrecognizedToken\(Name \{ name: "(match|case|type)" \}', rep.get("err") or "")
    b = site.text.encode("utf-8", "surrogatepass")
    if (rep.get("err") or "").startswith("UnrecognizedToken(") and rep["offset"] <= site.span[0] and _softkw_line_start(b, site.span[0], rep["offset"]) is not None:
        return "lexical-error-on-soft-keyword-line-reported-as-unexpected-name"
    if False:
        pass
    return "unlisted:error-does-not-name-the-rule"


def _work(st, batch):
    res = core.Result("C04", "", 0)
    h = st[VARIANT]
    for kind, tag, text, seed in batch:
        rng = core.rng_for(seed, "c04", tag)
        if kind == "site":
            sites = [text]
        elif "ok" not in h.json("parse", ["exec", 0, "nodump"], text):
            res.counters["base program not accepted (C01's business), no edits applied"] += 1
            continue
        elif reference_rejects(text):
            # then the reference's verdict on an edited text says nothing about the edit (e.g. a file with a BOM and a
            # coding cookie, which only the reference refuses)
            res.counters["base program not accepted by the reference, no edits applied"] += 1
            continue
        else:
            sites = token_edits(text, rng, 2) + indentation_edits(text, rng, 2) + ast_edits(text, rng, 2)
        for s in sites:
            check_site(h, res, s, tag)
        if sites and len(res.samples) < 3 and len(sites[0].text) < 160:
            res.sample({"rule": sites[0].rule, "text": sites[0].text, "span": sites[0].span})
    return res


ALL_RULES = ["bracket-mismatch", "bracket-extra-closer", "bracket-unclosed-at-eof", "dedent-unknown-level", "tab-space-ambiguity", "tab-after-space", "bad-character", "line-continuation",
             "malformed-number", "unterminated-string", "mix-bytes-text", "non-ascii-bytes", "duplicate-parameter", "default-order", "positional-after-keyword", "unpack-after-double-star",
             "repeated-keyword", "bare-star", "parenthesised-star", "as-underscore", "fstring", "invalid-escape"]


def run(res):
    thorough = res.tier == "thorough"
    bins = core.build([VARIANT])
    rng = core.rng_for(res.seed, "c04")
    progs = [p for p in tw.corpus_programs(res.seed, 1500 if thorough else 120) if len(p[1]) < 50000] + tw.generated_programs(res.seed, 12000 if thorough else 4000)
    progs += [("sig:%d" % i, s) for i, s in enumerate(generated_signatures(rng, 4000 if thorough else 1500))]
    items = [("prog", tag, text, res.seed) for tag, text in progs]
    items += [("site", "enum:%d" % i, s, res.seed) for i, s in enumerate(enumerated(rng))]
    parts = core.pmap(_work, tw.batches(items, 25), init=tw.init_state, initargs=(bins,))
    for p in parts:
        res.merge(p)
    missing = [r for r in ALL_RULES if r not in res.cover.get("rules_exercised", {})]
    res.cover["rules_never_exercised"] = missing
    if missing:
        res.inconclusive.append("rules never exercised: %s" % missing)
    res.rule = ("valid programs (corpus, generator, generated signatures in def/async def/lambda/nested contexts) x single rule-violating edits at seeded sites (bracket mismatch / extra "
                "closer / unclosed at EOF, dedent to an unknown level, tab-space ambiguity, tab after space, characters that cannot begin a token, stray backslash, malformed "
                "numbers, unterminated strings, bytes/text mixing, non-ASCII bytes, duplicate parameter, default order, positional after keyword, unpacking after **, repeated "
                "keyword (calls and class headers), bare *, parenthesised star, 'as _'), plus enumerated malformed f-strings, strings, escapes and numbers in five contexts; "
                "a case is one edited text")
    res.assumptions = ["the expected error class per rule is the table in names_rule(); for malformed numbers (no dedicated error) any rejection located inside the literal counts",
                       "the reference must reject the edited text except for the three deliberately earlier/stricter rules"]


def replay(w):
    bins = core.build([VARIANT])
    h = core.Harness(bins[VARIANT])
    wi = w["witness"]
    r = core.Result("C04", "replay", 0)
    check_site(h, r, Site(wi["rule"], wi["text"], tuple(wi["span"]), w["detail"].get("note") and None, w["detail"].get("note", "")), "replay")
    for o in r.obs:
        print(o.cls, o.detail)
    return 1 if r.obs else 0
LEVEL = "fault_enumeration"
