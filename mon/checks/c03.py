"""C03: lexing and parsing are total — no panic, abort, overflow, hang; errors carry an in-bounds offset.

Monitors: (1) in-process seeded mutation loop (`fuzz` op) in a build with overflow checks and debug assertions and in
the plain release build: panic hook, error-offset bounds, token-stream finiteness, logical step counters (hook H2);
(2) pathological shapes (nesting, length, repetition) with explicit depth bounds, stack limits and a scaling test on
logical steps (steps per byte at k=1000 <= 1.5 x steps per byte at k=250); a dead harness process is an abort observation, bisected to one input;
(3) valgrind memcheck / Miri shards over the same op (thorough).
"""
import json
import os
import subprocess
from collections import Counter

from .. import core, sanitize, treework as tw, workloads

CHK, REL = "full-chk", "deflt"
# steps <= STEP_C * (bytes + 16): 8x the largest ratio measured on the unchanged tree over the thorough workload
STEP_C = 160.0


def directed_payload():
    """Texts whose errors are raised by the nested parsers on reconstructed text (f-string fields: self-documenting `=`,
    conversions, specs, CR/CRLF inside the field, nested quotes, escapes) with multi-byte characters right before the
    place where parsing fails: a mis-translated error offset lands inside a character."""
    heads = ["x", "'a'", "1", "é", "d['é']", "(a,"]
    tails = ["'\\N{é'", "é é", "'é' 'é' $", "é)", "日 日", "'日'é", "é é=", "'é'\\", "\\N{é}", "é'", "𝄞 𝄞", "'𝄞' !", "lambda é é", "é :="]
    texts = []
    for q in ("'", '"', "'" * 3, '"' * 3):
        for pre in ("f", "rf", "F"):
            for h_ in heads:
                for t_ in tails:
                    if q[0] in h_ + t_ and len(q) == 1:
                        continue
                    for body in ("{%s=%s}" % (h_, t_), "{%s = %s}" % (h_, t_), "{%s=!r:%s}" % (h_, t_), "{%s:{%s}}" % (h_, t_), "é{%s}{%s=}" % (h_, t_), "{%s!r}{%s}" % (h_, t_)):
                        texts.append(pre + q + body + q)
                    if len(q) == 3:
                        for nl in ("\r\n", "\n", "\r"):
                            texts.append(pre + q + "{" + nl + t_ + "}" + q)
                            texts.append(pre + q + "é" + nl + "{" + h_ + nl + "=" + t_ + "}" + q)
    # every other place that reports an error at "where I am now": the offending character itself is multi-byte
    slots = ["{x!%s}", "{x!%s:>3}", "{x:{w!%s}}", "{x!r%s}", "{x!%s", "{x%s", "{%s", "{x:%s", "}%s", "{x}%s}", "{x=!%s}", "{}%s", "{!%s}", "{x!}%s", "{x:{%s!}}", "{x!%s%s}",
             "{%s!r}", "{x=%s!}", "{x!r:%s{}", "{(%s}", "{x[%s}", "{'%s}", "{x#%s}", "{\\%s}", "{x:{y:{z%s}}}", "{%s=!%s}"]
    for q in ("'", '"', "'" * 3):
        for pre in ("f", "rf", "F", "fR"):
            for sl in slots:
                for ch in ("é", "日", "𝄞", "\u0301", "😀", "\u00a0", "ª"):
                    if "'" in sl and q[0] == "'":
                        continue
                    texts.append(pre + q + sl.replace("%s", ch) + q)
                    texts.append("x = " + pre + q + "é" + sl.replace("%s", ch) + "é" + q + " # é")
    plain = ["'\\x%s'", "'\\x4%s'", "'\\N{%s}'", "'\\N{%s'", "'\\N%s'", "'\\u00%s'", "'\\U0001F60%s'", "b'%s'", "b'a' '%s'", "'%s' b'a'", "b'\\x%s'", "'%s", "'" * 3 + "%s", "'a\\%s", "0%s", "0x%s", "0x_%s", "1_%s", "1__%s", "1e%s",
             "1e+%s", "1.5e%s", "0b2%s", "0o8%s", "09%s", "1_000_%s", "0_%s", "1j%s", "$%s", "x = %s$", "\\%s", "x \\%s\n", "(%s", ")%s", "x = (%s]", "?%s", "x!%s", "`%s`", "x = 1 %s= 2", "\t %s\n\t\tx", "if x:\n\ty\n  %s",
             "if x:\n    y\n  %s", "def f(%s, %s): pass", "f(%s=1, %s=2)", "f(**k, *%s)", "f(%s=1, 2)", "lambda %s=1, b: 0", "def f(*): %s", "(*%s)", "match x:\n case %s as _: pass", "print(%s", "x = [%s", "{%s: 1"]
    for sl in plain:
        for ch in ("é", "日", "𝄞", "\u0301", "😀", "\u00a0", "ª", "\u2028"):
            texts.append(sl.replace("%s", ch))
            texts.append("é = 'é'; " + sl.replace("%s", ch) + "\n")
    parts = []
    for t in ["\x00VERBATIM"] + texts:
        b = t.encode("utf-8")
        parts.append(str(len(b)).encode() + b"\n" + b)
    return b"".join(parts), len(texts)


def single_character_payload(thorough):
    """One code point alone, after a name / digit and in front of them: an identifier-start or -continue table entry that
    the other table does not know makes the lexer emit empty tokens for ever (or panic). Quick: both sides of every
    general-category change and every 61st code point; thorough: every code point."""
    import unicodedata
    cps = set()
    prev = None
    for c in range(0x110000):
        cat = unicodedata.category(chr(c))
        if cat != prev:
            cps.update((c - 1, c))
            prev = cat
    cps.update(range(0, 0x110000, 1 if thorough else 61))
    cps.update([0x309B, 0x309C, 0x1885, 0x1886, 0x2118, 0x212E, 0xB7, 0x387, 0x1369, 0x19DA, 0x2E2F, 0xFE0F, 0x200C, 0x200D, 0xFF3F, 0x203F])
    texts = []
    for c in sorted(cps):
        if c < 0 or 0xD800 <= c <= 0xDFFF:
            continue
        ch = chr(c)
        texts += [ch, "a" + ch, ch + "1", "match " + ch + ":"]
    parts = []
    for t in ["\x00VERBATIM"] + texts:
        b = t.encode("utf-8")
        parts.append(str(len(b)).encode() + b"\n" + b)
    return b"".join(parts), len(texts)


def seeds_payload(seed, n, maxlen):
    rng = core.rng_for(seed, "c03-seeds")
    texts = []
    import textwrap
    for tag, text in tw.corpus_programs(seed, n):
        if len(text) > maxlen:
            lines = text.split("\n")
            for _ in range(3):
                i = rng.randrange(0, len(lines))
                chunk = []
                size = 0
                while i < len(lines) and size + len(lines[i]) < maxlen:
                    chunk.append(lines[i])
                    size += len(lines[i]) + 1
                    i += 1
                if chunk:
                    texts.append(textwrap.dedent("\n".join(chunk)) + "\n")
        else:
            texts.append(text)
    for tag, text in tw.generated_programs(seed, n, salt="c03gen"):
        texts.append(text[:maxlen])
    parts = []
    for t in texts:
        tb = t.encode("utf-8", "surrogatepass")
        try:
            tb.decode("utf-8")
        except UnicodeDecodeError:
            continue
        parts.append(b"%d\n" % len(tb) + tb)
    return b"".join(parts)


def classify(v):
    """Known deviation: an input without any token (empty / blank / comment-only) parsed with a start offset k > 0
    reports its end-of-input error at offset 0 instead of inside [k, k+len]."""
    if v["what"] == "parse-error-offset" and v["offset"] > 0 and v["detail"].startswith("Eof at 0 ") and v["detail"].endswith("ntok=0"):
        return "eof-error-offset-not-translated-for-token-less-input"
    # Known deviation (same root as C02's fstring-crlf-shifts-inner-ranges): the string parser works on the literal's
    # value in which CRLF is already folded to LF, so an error it reports after a CRLF inside a (triple-quoted) literal
    # is located one byte too far left per CRLF and can fall inside a multi-byte character (the CRLF may also be the one of
    # a backslash-newline inside a single-quoted literal).
    if v["what"] in ("parse-error-offset", "lex-error-offset"):
        import re
        m = re.search(r" at (\d+)", v["detail"])
        b = bytes.fromhex(v["input"])
        if m and b"\r\n" in b:
            rel = int(m.group(1)) - v["offset"]
            if 0 <= rel <= len(b):
                for k in range(1, b[:rel + 8].count(b"\r\n") + 1):
                    o = rel + k
                    if o <= len(b) and (o == len(b) or (b[o] & 0xC0) != 0x80) and b"\r\n" in b[:o] and (b"'''" in b[:o] or b'"""' in b[:o] or b"\\\r\n" in b[:o]):
                        return "string-error-offset-shifted-left-per-crlf-inside-literal"
    return "unlisted:" + v["what"]


HANG_S = 120   # one input of at most a few KiB; the slowest observed needs milliseconds
# a fuzz shard answers within seconds; its own watchdog is shorter than the general one so that a change which makes *many*
# inputs hang still gets its verdict in minutes. Once one shard has confirmed a hang (single input, HANG_S), the others
# still confirm their own, with shorter waits.
FUZZ_WATCHDOG = int(os.environ.get("VERIF_C03_WATCHDOG", "300"))


def _hang_flag():
    return os.path.join(core.BUILD, "tmp", "hang-confirmed-" + core.RUN_ID)


def _waits():
    if os.path.exists(_hang_flag()):
        return 60, 30, 30
    return FUZZ_WATCHDOG, max(30, FUZZ_WATCHDOG // 2), HANG_S


def _fuzz_job(st, job):
    variant, seed, start, count, maxlen, stack_kb, payload = job
    res = core.Result("C03", "", 0)
    h = core.Harness(st[variant].binary, stack_kb=stack_kb)
    h.ignore_watchdog_flag = True   # every shard is examined on its own (a hang is this property's subject)
    h.call_timeout, trace_s, hang_s = _waits()
    args = [seed, start, count, maxlen]
    try:
        r = h.json("fuzz", args, payload)
    except core.HarnessDied as e:
        # abort / stack overflow / OOM: find the culprit index with a traced re-run, then regenerate its input
        req = (" ".join(["fuzz"] + [str(a) for a in args] + ["trace", str(len(payload))]) + "\n").encode() + payload
        try:
            p = subprocess.run([st[variant].binary], input=req, capture_output=True, timeout=trace_s if e.rc == "watchdog" else core.CALL_TIMEOUT, preexec_fn=core.die_with_parent)
            err = p.stderr
        except subprocess.TimeoutExpired as te:
            err = te.stderr or b""
        idx = None
        for line in err.decode("utf-8", "replace").splitlines():
            if line.startswith("I "):
                idx = int(line[2:])
        if e.rc == "watchdog":
            # no reply within the watchdog: re-run the one input that was in flight on its own; bounded progress is
            # demanded with a margin of four orders of magnitude over the slowest input ever observed (milliseconds)
            if idx is None:
                res.inconclusive.append("fuzz shard did not answer within the watchdog and the input in flight could not be identified")
                return res
            gh = core.Harness(st[variant].binary)
            gh.ignore_watchdog_flag = True
            g = gh.json("fuzz", [seed, idx, 1, maxlen, "gen"], payload)
            one = (" ".join(["fuzz", str(seed), str(idx), "1", str(maxlen), "only", str(len(payload))]) + "\n").encode() + payload
            try:
                subprocess.run([st[variant].binary], input=one, capture_output=True, timeout=hang_s, preexec_fn=core.die_with_parent)
                res.inconclusive.append("fuzz shard did not answer within the watchdog, but input %d alone finishes (overloaded machine?)" % idx)
            except subprocess.TimeoutExpired:
                try:
                    os.makedirs(os.path.dirname(_hang_flag()), exist_ok=True)
                    open(_hang_flag(), "w").close()
                except OSError:
                    pass
                res.add("unlisted:hang", {"index": idx, "variant": variant, "seconds": hang_s, "bytes": len(g["only_input"]) // 2,
                                          "input": bytes.fromhex(g["only_input"]).decode("utf-8", "replace")[:200]},
                        {"op": "fuzz", "variant": variant, "args": args, "index": idx, "input_hex": g["only_input"], "mode": g["only_mode"], "offset": g["only_offset"]})
            return res
        detail = {"rc": e.rc, "index": idx, "variant": variant, "stack_kb": stack_kb}
        wit = {"op": "fuzz", "variant": variant, "args": args, "index": idx, "stack_kb": stack_kb}
        if idx is not None:
            g = core.Harness(st[variant].binary).json("fuzz", [seed, idx, 1, maxlen, "gen"], payload)
            wit.update({"input_hex": g["only_input"], "mode": g["only_mode"], "offset": g["only_offset"]})
            detail["input"] = bytes.fromhex(g["only_input"]).decode("utf-8", "replace")[:200]
        res.add("unlisted:process-died", detail, wit)
        return res
    finally:
        h.close()
    res.evaluations += r["execs"]
    res.counters["fuzz-execs:" + variant] += r["execs"]
    res.counters["parse-ok"] += r["ok"]
    res.counters["parse-err"] += r["err"]
    res.counters["lex-err"] += r["lexerr"]
    res.cover["error_kinds"] = Counter(r["err_kinds"])
    res.cover["max_step_ratio"] = r["max_ratio"]
    res.cover["max_lexer_loop_ratio"] = r["max_loop_ratio"]
    res.distinct_extra += r["distinct"]
    for s in r["samples"][:1]:
        res.sample({"fuzz_input": s})
    if r["max_ratio"] > STEP_C:
        res.add("unlisted:step-bound-exceeded", {"ratio": r["max_ratio"], "bound": STEP_C, "input": bytes.fromhex(r["max_ratio_input"]).decode("utf-8", "replace")[:200]},
                {"op": "fuzz", "variant": variant, "input_hex": r["max_ratio_input"]})
    for v in r["violations"]:
        res.add(classify(v), {"what": v["what"], "mode": v["mode"], "offset": v["offset"], "detail": v["detail"], "input": bytes.fromhex(v["input"]).decode("utf-8", "replace")[:120]},
                {"op": "parse", "variant": variant, "mode": v["mode"], "offset": v["offset"], "input_hex": v["input"]})
    if r["nviol"] > len(r["violations"]):
        res.counters["violations-not-listed"] += r["nviol"] - len(r["violations"])
    return res


# ----------------------------------------------------------------------------- pathological shapes
def families():
    """name -> builder(k) giving (mode, text); k scales nesting depth / repetition."""
    F = {}
    F["parens"] = lambda k: ("eval", "(" * k + "x" + ")" * k)
    F["lists"] = lambda k: ("eval", "[" * k + "x" + "]" * k)
    F["dicts"] = lambda k: ("eval", "{1:" * k + "x" + "}" * k)
    F["sets-tuples"] = lambda k: ("eval", "{(" * k + "x" + ",)}" * k)
    F["calls"] = lambda k: ("eval", "f(" * k + "x" + ")" * k)
    F["subscripts"] = lambda k: ("eval", "x[" * k + "0" + "]" * k)
    F["unary-minus"] = lambda k: ("eval", "-" * k + "x")
    F["not"] = lambda k: ("eval", "not " * k + "x")
    F["lambda"] = lambda k: ("eval", "lambda: " * k + "x")
    F["ternary"] = lambda k: ("eval", "a if b else " * k + "c")
    F["comprehension"] = lambda k: ("eval", "[x for x in " * k + "y" + "]" * k)
    F["await"] = lambda k: ("eval", "await " * k + "x")
    F["power"] = lambda k: ("eval", "x**" * k + "y")
    F["fstring-in-call"] = lambda k: ("eval", "f(f'{" * min(k, 2) + "x" + "}')" * min(k, 2))
    F["blocks"] = lambda k: ("exec", "".join(" " * i + "if x:\n" for i in range(k)) + " " * k + "pass\n")
    F["defs"] = lambda k: ("exec", "".join(" " * i + "def f():\n" for i in range(k)) + " " * k + "pass\n")
    F["match-nest"] = lambda k: ("exec", "".join("  " * i + ("match x:\n" if i % 2 == 0 else "case _:\n") for i in range(2 * k)) + "  " * (2 * k) + "pass\n")
    F["patterns"] = lambda k: ("exec", "match x:\n case " + "[" * k + "y" + "]" * k + ": pass\n")
    F["binop-chain"] = lambda k: ("eval", "x+" * k + "y")
    F["compare-chain"] = lambda k: ("eval", "x<" * k + "y")
    F["boolop-chain"] = lambda k: ("eval", "x or " * k + "y")
    F["attr-chain"] = lambda k: ("eval", "x" + ".a" * k)
    F["call-chain"] = lambda k: ("eval", "f" + "()" * k)
    F["string-concat"] = lambda k: ("eval", "'a' " * k + "'b'")
    F["fstring-concat"] = lambda k: ("eval", "f'{x}' " * k + "'b'")
    F["fstring-many-fields"] = lambda k: ("eval", "f'" + "{x!r:>{w}}" * k + "'")
    F["long-name"] = lambda k: ("eval", "a" * (k * 10))
    F["long-int"] = lambda k: ("eval", "9" * (k * 10))
    F["long-string"] = lambda k: ("eval", "'" + "a\\n" * (k * 4) + "'")
    F["long-comment"] = lambda k: ("exec", "x = 1 #" + "c" * (k * 10) + "\n")
    F["assign-chain"] = lambda k: ("exec", "x = " * k + "1\n")
    F["semicolons"] = lambda k: ("exec", "x;" * k + "\n")
    F["many-dedents"] = lambda k: ("exec", "".join(" " * i + "if x:\n" for i in range(k)) + " " * k + "pass\nx\n")
    F["match-lines"] = lambda k: ("exec", "match x:\n" + " case 1: pass\n" * k)
    F["softkw-name-lines"] = lambda k: ("exec", "match = 1\ncase(2)\ntype = match\n" * k)
    F["type-lines"] = lambda k: ("exec", "type X[T] = int\n" * k)
    F["match-long-line"] = lambda k: ("exec", "match " + "(x)," * k + ":\n case _: pass\n")
    F["softkw-one-line-many"] = lambda k: ("exec", "match;" * k + "\n")
    F["decorators"] = lambda k: ("exec", "@d\n" * k + "def f(): pass\n")
    F["elif-chain"] = lambda k: ("exec", "if x: pass\n" + "elif y: pass\n" * k)
    F["params"] = lambda k: ("exec", "def f(" + ",".join("a%d=1" % i for i in range(k)) + "): pass\n")
    F["call-kwargs"] = lambda k: ("eval", "f(" + ",".join("a%d=1" % i for i in range(k)) + ")")
    F["backslash-continuations"] = lambda k: ("exec", "x = 1 + \\\n" * k + "2\n")
    F["blank-lines"] = lambda k: ("exec", "\n" * (k * 5) + "x\n")
    F["unclosed-parens"] = lambda k: ("eval", "(" * k)
    F["unopened-parens"] = lambda k: ("eval", ")" * k)
    F["unterminated-fstrings"] = lambda k: ("eval", "f'{" * k)
    F["garbage-dollars"] = lambda k: ("exec", "$" * k)
    F["indent-errors"] = lambda k: ("exec", "".join("if x:\n" + " " * (i + 1) + "y\n" + " " * i + "z\n" for i in range(1, min(k, 50))))
    return F


NEST = {"parens", "lists", "dicts", "sets-tuples", "calls", "subscripts", "unary-minus", "not", "lambda", "ternary", "comprehension",
        "await", "power", "blocks", "defs", "match-nest", "patterns", "unclosed-parens"}


def _shape_job(st, job):
    fam, k, variant, stack_kb, verdict = job
    res = core.Result("C03", "", 0)
    mode, text = families()[fam](k)
    h = core.Harness(st[variant].binary, stack_kb=stack_kb)
    h.ignore_watchdog_flag = True
    wit = {"op": "parse", "variant": variant, "mode": mode, "offset": 0, "family": fam, "k": k, "stack_kb": stack_kb, "text": text if len(text) < 4000 else None}
    out = {"fam": fam, "k": k, "variant": variant, "steps": None, "n": len(text), "died": False}
    try:
        for off in (0, 2 ** 31):
            rep = h.json("parse", [mode, off, "starts_at", "nodump"], text)
            res.seen("%s/%d/%s/%d" % (fam, k, variant, off))
            if "panic" in rep:
                res.add("unlisted:parse-panic", {"family": fam, "k": k, "panic": rep}, wit)
                continue
            out["steps"] = sum(rep["steps"])
            if "err" in rep:
                o = rep["offset"]
                if not (off <= o <= off + len(text.encode())):
                    cls = "eof-error-offset-not-translated-for-token-less-input" if (o == 0 and off > 0 and rep["err"] == "Eof" and fam in ("blank-lines",)) else "unlisted:parse-error-offset"
                    res.add(cls, {"family": fam, "k": k, "err": rep["err"], "offset": o, "start": off}, wit)
            ratio = out["steps"] / (len(text.encode()) + 16)
            res.cover["max_step_ratio"] = max(res.cover.get("max_step_ratio", 0), ratio)
            if ratio > STEP_C:
                res.add("unlisted:step-bound-exceeded", {"family": fam, "k": k, "ratio": ratio, "bound": STEP_C}, wit)
        lr = h.json("lex", [mode, 0, 10 ** 9 if len(text) > 10 ** 6 else 4 * len(text.encode()) + 64], text) if len(text) < 200000 else {"capped": False}
        if "panic" in lr:
            res.add("unlisted:lex-panic", {"family": fam, "k": k, "panic": lr}, wit)
        elif lr["capped"]:
            res.add("unlisted:lex-unbounded", {"family": fam, "k": k, "n": lr["n"]}, wit)
    except core.HarnessDied as e:
        out["died"] = True
        if e.rc == "watchdog":
            # one pathological shape of a few kilobytes to a few megabytes did not come back within the watchdog; the
            # step counters of the shapes that did come back decide the complexity clause, this one stays undecided
            res.inconclusive.append("shape %s k=%d (%s): no reply within the watchdog" % (fam, k, variant))
        elif verdict:
            res.add("unlisted:process-died", {"family": fam, "k": k, "rc": e.rc, "variant": variant, "stack_kb": stack_kb}, wit)
        else:
            res.counters["beyond-bounds-died:%s@%d" % (fam, k)] += 1
    finally:
        h.close()
    res.cover["shapes"] = [out]
    return res


def run(res):
    thorough = res.tier == "thorough"
    bins = core.build([CHK, REL])
    seed = res.seed
    payload_small = seeds_payload(seed, 60 if not thorough else 250, 400)
    payload_big = seeds_payload(seed + 1, 40 if not thorough else 120, 3000)
    jobs = []
    per = 6000 if not thorough else 25000
    njobs = 12 if not thorough else 40
    for j in range(njobs):
        jobs.append((CHK, seed, j * per, per, 400, 8192, payload_small))
    for j in range(4 if not thorough else 16):
        jobs.append((REL, seed + 7, j * per, per, 400, 8192, payload_small))
    for j in range(4 if not thorough else 12):
        jobs.append((CHK, seed + 13, j * 1500, 1500, 3000, 262144, payload_big))
    payload_directed, ndirected = directed_payload()
    chunk = 1500
    for rep in range(1 if not thorough else 4):   # every directed input once (thorough: four times, other modes / offsets)
        for j in range(0, ndirected, chunk):
            jobs.append((CHK if rep % 2 == 0 else REL, seed + 21 + rep, j, min(chunk, ndirected - j), 400, 8192, payload_directed))
    res.cover["directed_nested_parser_error_seeds"] = ndirected
    payload_chars, nchars = single_character_payload(thorough)
    for j in range(0, nchars, 8000):
        jobs.append((CHK if (j // 8000) % 2 == 0 else REL, seed + 31, j, min(8000, nchars - j), 400, 8192, payload_chars))
    res.cover["single_character_inputs"] = nchars
    parts = core.pmap(_fuzz_job, jobs, init=tw.init_state, initargs=(bins,))
    for p in parts:
        res.merge(p)
    # pathological shapes: verdict depths 200 (-chk, 2 MiB stack) and 1000 (release, 8 MiB); deeper is reported only
    sj = []
    for fam in families():
        nest = fam in NEST
        for k, variant, stack, verdict in ((50, CHK, 2048, True), (200, CHK, 2048, True), (250, REL, 8192, True), (1000, REL, 8192, True),
                                           (5000, REL, 8192, False), (20000 if thorough else 8000, REL, 8192, False)):
            if not nest and k > 1000:
                sj.append((fam, k, REL, 65536, True))    # length / repetition: no recursion expected, any depth is a verdict
            else:
                sj.append((fam, k, variant, stack, verdict))
    parts = core.pmap(_shape_job, sj, init=tw.init_state, initargs=(bins,))
    shapes = {}
    for p in parts:
        for o in p.cover.pop("shapes", []):
            shapes[(o["fam"], o["k"], o["variant"])] = o
        res.merge(p)
    # scaling monitor on logical steps: steps per byte at k=1000 <= 1.5 x steps per byte at k=250 (linear cost; a quadratic path gives 16x)
    scal = {}
    for fam in families():
        a, b = shapes.get((fam, 250, REL)), shapes.get((fam, 1000, REL))
        if a and b and a["steps"] and b["steps"]:
            # growth of steps relative to growth of the input size (1.0 = linear)
            r = (b["steps"] / a["steps"]) / (b["n"] / a["n"])
            scal[fam] = round(r, 2)
            if r > 1.5:
                res.add("unlisted:superlinear-steps", {"family": fam, "steps_250": a["steps"], "steps_1000": b["steps"], "ratio": r},
                        {"op": "parse", "family": fam, "k": 1000, "variant": REL})
    res.cover["step_scaling_1000_over_250"] = scal
    res.cover["beyond_bounds"] = {k: v for k, v in res.counters.items() if k.startswith("beyond-bounds-died")}
    res.cover["step_bound_C"] = STEP_C
    if any(o.cls == "unlisted:hang" for o in res.obs):
        # the same inputs would loop under valgrind / Miri until their own time limits: nothing to learn, the verdict is in
        res.counters["sanitizer shards skipped: a hang is already confirmed"] += 1
    elif thorough:
        sanitize.fuzz_shards(res, bins, payload_small, seed)
    else:
        sanitize.fuzz_shards(res, bins, payload_small, seed, valgrind_execs=150, miri_execs=0)
    res.rule = ("seeded mutations (delete/duplicate/transpose/splice/truncate/dictionary insert/bracket flip/indentation damage/"
                "random code points/repetition) and token soups of corpus snippets x 3 modes x start offsets {0,1,400,65535,2^31,2^32-1-len,"
                "2^32-2-len}, executed in-process in an overflow-checked/debug-assertion build and in the release build; plus %d "
                "pathological families at depths 50..20000 with stack limits; a case is one (input, mode, offset) execution; "
                "distinct = inputs distinct by hash of (mode, offset, text) with more than 4 bytes, counted inside the harness, plus shapes" % len(families()))
    res.assumptions = ["hook H2 step counters measure logical work", "stack bounds: 2 MiB at depth<=200 (checked build), 8 MiB at depth<=1000 (release)",
                       "inputs approaching 2^32 bytes are out of reach; offset arithmetic near 2^32 is reached through start offsets"]


def replay(w):
    bins = core.build([CHK, REL])
    wi = w["witness"]
    h = core.Harness(bins.get(wi.get("variant", CHK), bins[CHK]), stack_kb=wi.get("stack_kb"))
    if wi.get("input_hex") is not None:
        text = bytes.fromhex(wi["input_hex"])
    elif wi.get("text") is not None:
        text = wi["text"].encode()
    else:
        mode, t = families()[wi["family"]](wi["k"])
        wi["mode"] = mode
        text = t.encode()
    try:
        rep = h.json("parse", [wi.get("mode", "exec"), wi.get("offset", 0), "starts_at"], text)
    except core.HarnessDied as e:
        print("process died", e.rc)
        return 1
    print(json.dumps(rep)[:300])
    off = wi.get("offset", 0)
    if "panic" in rep or ("err" in rep and not (off <= rep["offset"] <= off + len(text))):
        return 1
    return 0
