"""C19: printf-style (%) template parsing and formatting equal Python's.

Differential oracle: `template % args` for text and bytes templates. The harness driver applies no conversion of its
own: %r / %a receive repr(v) / ascii(v) from the orchestrator, `*` width / precision are substituted from the
argument list as an interpreter would.
"""
import json
import re
import struct
from collections import Counter

from .. import core, sanitize, treework as tw

VARIANT = "deflt-chk"
INTS = [0, 1, -1, 7, 42, -42, 255, 4096, -4096, 10 ** 10, -10 ** 20, 2 ** 64, 123456789]
# machine-word boundaries, both signs (i8 .. i128): where a fast path for small integers would end
INTS += [sgn * (2 ** k + d) for k in (7, 8, 15, 16, 31, 32, 63, 64, 127, 128) for d in (-1, 0, 1) for sgn in (1, -1)]
FLOATS = [0.0, -0.0, 0.5, 1.0, -1.5, 3.14159, 1234.5678, -1234.5678, 1e-7, 1e16, 1e100, 123456789.123, 2.5, 0.0001, float("inf"), float("-inf"), float("nan")]
# NaNs with the sign bit set / with payloads (Python never prints a sign for them unless asked)
FLOATS += [struct.unpack("<d", struct.pack("<Q", b))[0] for b in (0xFFF8000000000000, 0x7FF8000000000001, 0xFFF0000000000001, 0xFFFFFFFFFFFFFFFF)]
STRS = ["", "a", "abc", "héllo", "日本語", "x" * 12, "a b", "it's", 'q"q']
BYTS = [b"", b"a", b"abc", b"hello", b"\x00\xff", b"x" * 12]


def bits(f):
    return struct.unpack("<Q", struct.pack("<d", f))[0]


def q(s):
    return (s if isinstance(s, bytes) else s.encode("utf-8", "surrogatepass")).hex()


def gen_spec(rng, bytes_mode):
    """Returns (spec_text, conv, nstars, key)."""
    s = "%"
    key = None
    if rng.random() < .12:
        key = rng.choice(["a", "key", "", "a b", "(x)", "a(b)c", "日" if not bytes_mode else "k", "%", "1"])
        s += "(" + key + ")"
    for _ in range(rng.choice([0, 0, 0, 1, 1, 2, 3])):
        s += rng.choice("#0- +")
    nstars = 0
    k = rng.random()
    if k < .5:
        s += rng.choice(["1", "2", "5", "8", "12", "20", "0", "3"])
    elif k < .6 and key is None:
        s += "*"
        nstars += 1
    k = rng.random()
    if k < .4:
        s += "." + rng.choice(["", "0", "1", "2", "3", "6", "10", "15", "16", "17", "18", "19", "20", "25", "40"])
    elif k < .48 and key is None:
        s += ".*"
        nstars += 1
    if rng.random() < .1:
        s += rng.choice("hlL")
    conv = rng.choice("diuoxXeEfFgGcsra" if not bytes_mode else "diuoxXeEfFgGcsb")
    return s + conv, conv, nstars, key


WILD = [0.3]   # share of numeric arguments drawn at random instead of from the fixed lists


def rand_int(rng):
    v = rng.getrandbits(rng.choice([1, 2, 3, 5, 8, 16, 31, 32, 33, 63, 64, 65, 100, 200]))
    return -v if rng.random() < .4 else v


def rand_float(rng):
    k = rng.random()
    if k < .4:   # any bit pattern (subnormals, huge, tiny, NaN payloads)
        return struct.unpack("<d", struct.pack("<Q", rng.getrandbits(64)))[0]
    if k < .7:   # short decimals ending in 5: rounding boundaries of %f/%e/%g
        return float("%s%d.%s5" % (rng.choice(["", "-"]), rng.randrange(0, 10 ** rng.randint(0, 7)), "".join(rng.choice("0123456789") for _ in range(rng.randint(0, 6)))))
    return float("%s%de%d" % (rng.choice(["", "-"]), rng.randrange(1, 10 ** rng.randint(1, 17)), rng.randint(-30, 30)))


def make_case(rng, bytes_mode):
    """Returns (template, python_args, harness_args) or None."""
    nspec = rng.choice([1, 1, 1, 2, 3])
    lits = ["", "", "a", " b ", "%%", "x%%y", "é" if not bytes_mode else "e", "日本" if not bytes_mode else "nn", "(", ")", "100%% ", "\n"]
    tmpl = rng.choice(lits)
    pyargs = []
    hargs = []
    keys = []
    for _ in range(nspec):
        spec, conv, nstars, key = gen_spec(rng, bytes_mode)
        if key is not None and (keys == [] and pyargs):
            continue
        if key is None and keys:
            continue
        for _ in range(nstars):
            w = rng.choice([0, 1, 5, 12, -8, 3])
            pyargs.append(w)
            hargs.append("i:%d" % w)
        wild = rng.random() < WILD[0]
        if conv in "diuoxX":
            v = rand_int(rng) if wild else rng.choice(INTS)
            pyargs.append(v)
            hargs.append("i:%d" % v)
        elif conv in "eEfFgG":
            v = rand_float(rng) if wild else rng.choice(FLOATS)
            pyargs.append(v)
            hargs.append("f:%d" % bits(v))
        elif conv == "c":
            if bytes_mode and "." in spec:
                return None   # the crate has no bytes %c entry point; the driver's choice would decide the precision case
            if bytes_mode:
                v = rng.choice([b"a", b"\x00", b"\xff"])
                pyargs.append(v)
                hargs.append("y:" + v.hex())
            else:
                v = rng.choice(["a", "é", "日", "𝄞", " "])
                pyargs.append(v)
                hargs.append("s:" + q(v))
        elif conv in "sb" and bytes_mode:
            v = rng.choice(BYTS)
            pyargs.append(v)
            hargs.append("y:" + v.hex())
        elif conv == "s":
            v = rng.choice(STRS)
            pyargs.append(v)
            hargs.append("s:" + q(v))
        elif conv == "r":
            v = rng.choice(STRS + INTS[:4])
            pyargs.append(v)
            hargs.append("s:" + q(repr(v)))
        elif conv == "a":
            v = rng.choice(STRS)
            pyargs.append(v)
            hargs.append("s:" + q(ascii(v)))
        if key is not None:
            keys.append(key)
        tmpl += spec + rng.choice(lits)
    if keys:
        if len(set(keys)) != len(keys):
            return None
        pa = dict(zip(keys, pyargs))
    else:
        pa = tuple(pyargs)
    return tmpl, pa, hargs, keys


# (widths between 2^31 and 2^63 are not generated: the reference accepts them and builds a string of that size)
def bad_templates(rng, n, bytes_mode):
    alpha = "%()#0-+ *.123hlLdiouxXeEfFgGcrsayzb!" + ("" if bytes_mode else "é")
    out = ["%", "%(", "%(a", "%(a)", "%5", "%.", "%.5", "%#", "%l", "%y", "abc%", "%%%", "% ", "%(a)(b)s", "%((a)s", "%(a))s", "%5.5.5d", "%**d", "%*.*", "%1$d", "%-", "%0",
           "%99999999999999999999d", "%.99999999999999999999d", "%.2147483648d", "%.2147483649f", "%.2147483648s", "%.2147483649s", "%.21474836480d", "%.4294967296s", "%9223372036854775808d", "%#.2147483648x", "%5.2147483649d", "%hhd", "%lld", "%ls", "%q", "%5y", "abc%zdef", "%(k)y", "%\n", "%é" if not bytes_mode else "%~"]
    for _ in range(n):
        out.append("".join(rng.choice(alpha) for _ in range(rng.randint(1, 8))))
    return out


class _AnyKey(dict):
    def __missing__(self, k):
        return 1


def py_eval(tmpl, args, bytes_mode):
    if args == "auto":
        # malformed / random templates: find an argument count Python is happy with so that the template itself decides
        last = None
        for n in range(0, 7):
            last = py_eval(tmpl, tuple([1] * n), bytes_mode)
            if last[0] == "TYPEERR" and ("not all arguments converted" in last[1] or "not enough arguments" in last[1]):
                continue
            if last[0] == "TYPEERR" and "requires a mapping" in last[1]:
                return py_eval(tmpl, _AnyKey(), bytes_mode)
            return last
        return last
    t = tmpl.encode("utf-8") if bytes_mode else tmpl
    try:
        r = t % args
        return ("OK", r if bytes_mode else r.encode("utf-8", "surrogatepass"))
    except ValueError as e:
        return ("VALUEERR", str(e))
    except TypeError as e:
        return ("TYPEERR", str(e))
    except (OverflowError, MemoryError) as e:
        return ("OTHER", str(e))
    except KeyError as e:
        return ("KEYERR", str(e))


def compare(res, tmpl, pyargs, hargs, keys, bytes_mode, line, rq):
    wit = {"op": "cfmt", "line": rq}
    py = py_eval(tmpl, pyargs, bytes_mode)
    parts = line.split("\t")
    res.counters["py-%s/rust-%s" % (py[0], parts[0])] += 1
    detail = {"template": tmpl, "bytes": bytes_mode, "args": repr(pyargs)[:80], "python": (py[0], py[1][:80].decode("utf-8", "replace") if isinstance(py[1], bytes) else py[1][:100])}
    if parts[0] == "PANIC":
        detail["rust"] = line[:200]
        res.add("unlisted:panic", detail, wit)
        return
    if parts[0] == "OK":
        out = bytes.fromhex(parts[1])
        detail["rust"] = ("OK", out[:80].decode("utf-8", "replace"))
        if py[0] == "OK":
            if out != py[1]:
                res.add("unlisted:formatted-text-differs", detail, wit)
            elif keys:
                dump = json.loads(bytes.fromhex(parts[3]).decode())
                got_keys = [p["_tup"][1]["_a"][0]["mapping_key"] for p in dump["parts"] if p["_tup"][1]["_t"] == "Spec"]
                if got_keys != keys:
                    res.add("unlisted:mapping-keys-differ", dict(detail, got_keys=got_keys, keys=keys), wit)
        elif py[0] == "VALUEERR":
            cls = "unlisted:python-rejects-template-but-crate-accepts"
            if not bytes_mode and re.match(r"unsupported format character 'b' ", py[1]):
                cls = "percent-b-accepted-in-text-template"
            res.add(cls, detail, wit)
        else:
            res.counters["python-type-error-not-comparable"] += 1
        return
    if parts[0] == "PARSEERR":
        typ, index = parts[1], int(parts[2])
        detail["rust"] = ("PARSEERR", typ, index)
        if py[0] == "OK":
            res.add("unlisted:crate-rejects-template-python-accepts", detail, wit)
            return
        if py[0] == "VALUEERR":
            m = re.match(r"unsupported format character '(.*)' \((0x[0-9a-f]+)\) at index (\d+)", py[1], re.S)
            if m and not bytes_mode and m.group(1) == "b" and not (typ.startswith("UnsupportedFormatChar") and int(m.group(3)) == index):
                # '%b' passed the shared specifier parser, the crate's error (if any) comes from further right
                res.add("percent-b-accepted-in-text-template", detail, wit)
            elif m:
                if not typ.startswith("UnsupportedFormatChar") or int(m.group(3)) != index:
                    res.add("unlisted:error-kind-or-index-differs", detail, wit)
            elif "incomplete format key" in py[1]:
                if typ != "UnmatchedKeyParentheses":
                    res.add("unlisted:error-kind-or-index-differs", detail, wit)
            elif "incomplete format" in py[1]:
                if typ != "IncompleteFormat":
                    res.add("unlisted:error-kind-or-index-differs", detail, wit)
            elif "too big" in py[1] or "too many" in py[1].lower():
                if typ != "IntTooBig":
                    res.add("unlisted:error-kind-or-index-differs", detail, wit)
            else:
                res.counters["python-valueerror-other:" + py[1][:30]] += 1
        else:
            # Python complained about the arguments before/instead of the template; re-ask with enough arguments
            res.counters["python-%s-while-crate-parse-error" % py[0]] += 1
        return
    if parts[0] in ("NOTENOUGH", "TYPEMISMATCH", "STARARG", "STARBIG", "EMPTYCHAR", "BADARG", "BADINPUT"):
        detail["rust"] = parts[0]
        if pyargs == "auto":
            res.counters["auto-argument probe: driver cannot format (%s), template accepted by both" % parts[0]] += 1
        elif py[0] == "OK":
            res.add("unlisted:driver-could-not-format-what-python-formats", detail, wit)
        else:
            res.counters["driver-%s/python-%s" % (parts[0], py[0])] += 1
        return
    res.add("unlisted:unknown-reply", {"line": line[:200]}, wit)


def _work(st, batch):
    res = core.Result("C19", "", 0)
    h = st[VARIANT]
    reqs = []
    for tmpl, pyargs, hargs, keys, bm in batch:
        reqs.append("\t".join([("b" if bm else "t"), q(tmpl)] + hargs))
    lines = h.lines("cfmt", reqs)
    for (tmpl, pyargs, hargs, keys, bm), rq, ln in zip(batch, reqs, lines):
        res.seen(rq)
        compare(res, tmpl, pyargs, hargs, keys, bm, ln, rq)
    if batch:
        res.sample({"template": batch[0][0], "args": repr(batch[0][1])[:60], "bytes": batch[0][4]})
    return res


def run(res):
    thorough = res.tier == "thorough"
    bins = core.build([VARIANT, "deflt"])
    rng = core.rng_for(res.seed, "c19")
    items = []
    for bm in (False, True):
        n = (400000 if thorough else 50000) if not bm else (150000 if thorough else 20000)
        for _ in range(n):
            c = make_case(rng, bm)
            if c:
                items.append(c + (bm,))
        for t in bad_templates(rng, 80000 if thorough else 10000, bm):
            # enough arguments of a harmless kind so that Python reaches the template error
            items.append((t, "auto", ["i:1"] * 6, [], bm))
    parts = core.pmap(_work, tw.batches(items, 4000), init=tw.init_state, initargs=({VARIANT: bins[VARIANT]},))
    for p in parts:
        res.merge(p)
    sample = ["\t".join([("b" if bm else "t"), q(t)] + ha) for t, pa, ha, k, bm in items[:400]]
    sanitize.batch_under_tools(res, bins, "cfmt", [], ("\n".join(sample) + "\n").encode(), tools=("valgrind",), what="cfmt batch of 400")
    res.rule = ("templates built from literal pieces (incl. %%, multi-byte) and 1-3 specifiers (mapping keys with nested parentheses, flags in any order/repetition, "
                "width/precision incl. '*', length modifiers, every conversion character) with ints, doubles, strings, characters and byte strings shorter/equal/longer "
                "than width and precision, in text and bytes mode; plus malformed templates over the specifier alphabet; a case is (mode, template, arguments)")
    res.assumptions = ["Python 3.11 % operator is the reference", "driver in harness/src/ops_fmt.rs maps one argument per specifier without converting values"]


def replay(w):
    bins = core.build([VARIANT])
    h = core.Harness(bins[VARIANT])
    print(h.lines("cfmt", [w["witness"]["line"]]))
    return 0
