"""C18: format-spec parsing and formatting equal Python's format().

Differential oracle: format(value, spec) for ints, floats, strings and booleans over a grid of the mini-language and
malformed specifications. Outcomes: text, error (Python raises / crate returns Err), panic.
"""
import re
import struct
from collections import Counter

from .. import core, treework as tw

VARIANT = "deflt-chk"
SPEC_RE = re.compile(r"^(?:(?P<fill>.)?(?P<align>[<>=^]))?(?P<sign>[-+ ])?(?P<z>z)?(?P<alt>#)?(?P<zero>0)?(?P<width>\d+)?(?P<group>[_,])?(?:\.(?P<prec>\d+))?(?P<type>[bcdeEfFgGnosxX%])?$", re.S)

INTS = [0, 1, -1, 7, 10, 255, -255, 1000, 1234567, -1234567, 10 ** 20, -10 ** 30, 2 ** 64, 97, 0x10FFFF, 0x110000, -5, 123456789012345678901234567890]
# machine-word boundaries, both signs (i8 .. i128): where a fast path for small integers would end
INTS += [sgn * (2 ** k + d) for k in (7, 8, 15, 16, 31, 32, 63, 64, 127, 128) for d in (-1, 0, 1) for sgn in (1, -1)]
FLOATS = [0.0, -0.0, 0.5, 1.0, -1.0, 1234.5678, -1234.5678, 1e-7, 1e16, 1e100, 123456789.123, 0.1, 2.5, 1e-5, 0.0001, 999999.5, 1e15, 12345678901234567.0,
          float("inf"), float("-inf"), float("nan")]
# NaNs with the sign bit set / with payloads (Python never prints a sign for them unless asked)
FLOATS += [struct.unpack("<d", struct.pack("<Q", b))[0] for b in (0xFFF8000000000000, 0x7FF8000000000001, 0xFFF0000000000001, 0xFFFFFFFFFFFFFFFF)]
STRS = ["", "a", "abc", "héllo", "日本語テキスト", "x" * 30, "a b", "𝄞𝄞"]


def bits(f):
    return struct.unpack("<Q", struct.pack("<d", f))[0]


def q(s):
    return s.encode("utf-8", "surrogatepass").hex()


def gen_specs(rng, n):
    out = []
    for _ in range(n):
        s = ""
        if rng.random() < .5:
            if rng.random() < .5:
                s += rng.choice(["x", "*", "é", "0", " ", "日", "{", "<", "𝄞"])
            s += rng.choice("<>=^")
        if rng.random() < .35:
            s += rng.choice("-+ ")
        if rng.random() < .06:
            s += "z"
        if rng.random() < .25:
            s += "#"
        if rng.random() < .25:
            s += "0"
        if rng.random() < .6:
            s += rng.choice(["0", "1", "2", "5", "8", "12", "20", "40", "3"])
        if rng.random() < .3:
            s += rng.choice(",_")
        if rng.random() < .45:
            s += "." + rng.choice(["0", "1", "2", "3", "6", "10", "20", "5"])
        if rng.random() < .8:
            s += rng.choice("bcdeEfFgGnosxX%") if rng.random() < .97 else rng.choice("NyAjDSC")
        out.append(s)
    return out


def malformed(rng, n):
    alpha = "<>=^+- #0123456789,_.bcdeEfFgGnosxX%z{}é!:NyA"
    out = ["", " ", "{", "}", ".", "..", ".x", "10.", "1,,", ",_", "_,", "+-", "##", "00", "<<", "x<<", "=", "=0", "0=", "é", "éé", "é<é", ".5.5", "1e", "ss", "d5", "5d5",
           "99999999999999999999", ".99999999999999999999", "2147483648", ".2147483648", "4294967296d", "1000000", ",.2f", "_b", ",b", "_x", ",x", "_d", ",e", "_f", ",n", "_n", ",c", ",s", ".2c", ".2d", ".2x", "#s", "#c", "+s", " s", "=s", "0s", "05s", "z", "zf", "z.2f", "zd"]
    for _ in range(n):
        out.append("".join(rng.choice(alpha) for _ in range(rng.randint(1, 7))))
    return out


def sane(spec):
    """Skip widths/precisions between 10^4 and 10^18: both sides would build gigabyte strings."""
    return not any(4 < len(m) < 19 or (len(m) == 4 and int(m) > 2000) for m in re.findall(r"\d+", spec))


def py_format(v, spec):
    try:
        return ("OK", format(v, spec))
    except (ValueError, OverflowError) as e:
        return ("ERR", str(e)[:80])
    except TypeError as e:
        return ("ERR", str(e)[:80])


def shortest_repr_tie(v, py_text, rs_text):
    """Both texts are the same apart from one digit of repr(|v|) that differs by one, and both digit strings are
    shortest round-trip renderings of v (the double lies between them; Python picks the nearer / even one)."""
    r = repr(abs(v))
    j = py_text.find(r)
    if j < 0 or len(py_text) != len(rs_text):
        return False
    diff = [i for i in range(len(py_text)) if py_text[i] != rs_text[i]]
    if len(diff) != 1 or not (j <= diff[0] < j + len(r)):
        return False
    i = diff[0]
    a, b = py_text[i], rs_text[i]
    if not (a.isdigit() and b.isdigit() and abs(int(a) - int(b)) == 1):
        return False
    alt = r[:i - j] + b + r[i - j + 1:]
    try:
        return float(alt) == abs(v)
    except ValueError:
        return False


def _insert_separator(text, inter, sep, cnt):
    n = len(text)
    for i in range(1, cnt + 1):
        k = n - inter * i
        text = text[:k] + sep + text[k:]
    return text


def _separate_integer(text, inter, sep, disp):
    n = len(text)
    disp += 1 if disp % (inter + 1) == 0 else 0
    pad = disp - n
    sep_cnt = int(disp / (inter + 1))
    if pad > 0 and pad - sep_cnt > 0:
        return _insert_separator("0" * (pad - sep_cnt) + text, inter, sep, sep_cnt)
    return _insert_separator(text, inter, sep, int((n - 1) / inter) if n else 0)


def repr_tie_variants(a):
    """Digit strings of the same length as repr(a) whose last mantissa digit differs by one and which still round-trip."""
    r = repr(a)
    m = re.match(r"^(\d+\.?\d*?)(\d)((?:e[+-]\d+)?)$", r)
    out = []
    if m:
        for d in (-1, 1):
            nd = int(m.group(2)) + d
            if 0 <= nd <= 9:
                alt = m.group(1) + str(nd) + m.group(3)
                try:
                    if float(alt) == a:
                        out.append(alt)
                except ValueError:
                    pass
    return out


def crate_grouped_float(v, f, repr_style, raw=None):
    """Transliteration of FormatSpec::format_float's grouping path (add_magnitude_separators_for_char, separate_integer,
    insert_separator, format_sign_and_align) for inf / nan and for floats without presentation type; used only to pin
    the two known grouping classes to the crate's present behaviour."""
    import math
    up = f["type"] in ("F", "E", "G")
    if raw is not None:
        pass
    elif v != v:
        raw = "NAN" if up else "nan"
    elif abs(v) == float("inf"):
        raw = "INF" if up else "inf"
    elif f["type"] is None:
        if f["prec"] is None:
            raw = repr(abs(v))
        else:
            raw = format(abs(v), ("#" if f["alt"] else "") + "." + f["prec"] + ("" if repr_style else "g"))
    else:
        return None
    neg = v == v and math.copysign(1.0, v) < 0
    sign = "-" if neg else {"+": "+", " ": " "}.get(f["sign"] or "-", "")
    width = int(f["width"]) if f["width"] else None
    disp = max((width if width is not None else len(raw)) - len(sign), len(raw))
    ip = raw.split(".", 1)[0]
    mag = _separate_integer(ip, 3, f["group"], disp - (len(raw) - len(ip))) + raw[len(ip):]
    fill, align = f["fill"], f["align"]
    if f["zero"] and fill is None:
        fill, align = "0", align or "="
    fill, align = fill or " ", align or ">"
    need = max(0, width - len(mag) - len(sign)) if width is not None else 0
    if align == "<":
        return sign + mag + fill * need
    if align == ">":
        return fill * need + sign + mag
    if align == "=":
        return sign + fill * need + mag
    return fill * (need // 2) + sign + mag + fill * (need - need // 2)


def fields(spec):
    m = SPEC_RE.match(spec)
    return m.groupdict() if m else None


def classify(kind, v, spec, py, rs):
    """Known root causes (each a predicate over spec fields, value class and outcome kinds)."""
    f = fields(spec)
    pk, rk = py[0], rs[0]
    if spec[:2] in ("!s", "!r", "!a", "!b") and pk == "ERR":
        # exactly: the crate skips `!c` and then behaves as it does for the rest of the specification (which may show
        # another known deviation, or none)
        rest = spec[2:]
        py2 = py_format(v, rest)
        if py2[0] == rs[0] and (py2[0] == "ERR" or py2[1] == rs[1]):
            return "leading-conversion-accepted-in-format-spec"
        if rest[:2] not in ("!s", "!r", "!a", "!b") and classify(kind, v, rest, py2, rs):
            return "leading-conversion-accepted-in-format-spec"
        return None
    if f is None:
        return None
    if kind == "str" and pk == "OK" and rs == ("ERR", "PrecisionTooBig") and f["prec"] is not None and int(f["prec"]) > 2147483647 and f["type"] in (None, "s"):
        # exactly: the specification parser refuses any precision above i32::MAX; for text the reference takes it (nothing is truncated)
        return "string-precision-above-i32-max-rejected" if py == py_format(v, spec.replace("." + f["prec"], ".2147483647", 1)) else None
    t = f["type"]
    grp = f["group"]
    isfloat = kind == "float"
    special = isfloat and (v != v or v in (float("inf"), float("-inf")))
    if f["z"]:
        # exactly: Python accepts the spec, the crate rejects it as a whole
        return "z-option-unknown" if (pk == "OK" and rs == ("ERR", "InvalidFormatSpecifier")) else None
    if rk == "PANIC":
        if "Separators only valid for numbers!" not in rs[1]:
            return None
        if grp and isfloat and t in ("e", "E", "g", "G", "%", None, "n"):
            return "grouping-with-exponent-general-percent-panics"
        if grp and kind in ("int", "bool") and t in ("e", "E", "g", "G", "%", "n"):
            return "grouping-with-exponent-general-percent-panics"
        return None
    if t == "c" and kind == "int" and 0xD800 <= v <= 0xDFFF and pk == "OK" and rs == ("ERR", "CodeNotInRange"):
        return "char-conversion-of-surrogate-code-point-is-an-error"
    if isfloat and t is None and f["prec"] is None and not grp and pk == "OK" and rk == "OK" and shortest_repr_tie(v, py[1], rs[1]):
        return "float-no-type-shortest-repr-tie-broken-differently"
    if kind == "str":
        if pk == "ERR" and rk == "OK" and (f["sign"] or f["alt"] or f["align"] == "=" or f["zero"] or grp) and t in (None, "s"):
            # exactly: the crate ignores sign, '#' and grouping on a string, reads '=' as right alignment and the zero flag
            # as fill '0' (right-aligned unless an alignment is given), and otherwise formats as Python does
            al = f["align"]
            fill = f["fill"] or ("0" if f["zero"] else "")
            if al == "=" or (not al and f["zero"]):
                al = ">"
            try:
                model = format(v, ((fill + al) if al else "") + (f["width"] or "") + ("." + f["prec"] if f["prec"] is not None else ""))
            except ValueError:
                model = None
            return "string-spec-sign-alt-equals-align-not-rejected" if rs[1] == model else None
        if pk == "OK" and rk == "OK" and f["zero"] and not f["align"]:
            # exactly: the crate pads on the left (as for numbers) where Python pads a string on the right
            model = format(v, "0>" + (f["width"] or "") + ("." + f["prec"] if f["prec"] is not None else ""))
            return "string-zero-flag-padding-differs" if rs[1] == model else None
    if kind == "bool" and t is None and spec != "" and rs == ("OK", "True" if v else "False"):
        return "bool-without-type-formatted-as-text-not-int"
    if t == "c" and kind in ("int", "bool") and rk == "OK" and not (f["sign"] or f["alt"] or grp):
        # exactly: the crate ignores a precision on 'c' (Python rejects it) and pads to the width counted in UTF-8 bytes of
        # the character (Python counts characters); everything else about the field is as in Python
        cp = int(v)
        if 0 <= cp < 0x110000 and not (0xD800 <= cp <= 0xDFFF):
            extra = len(chr(cp).encode("utf-8")) - 1
            w = f["width"]
            w2 = str(max(int(w) - extra, 0)) if w else ""
            spec2 = (((f["fill"] or "") + f["align"]) if f["align"] else "") + ("0" if f["zero"] else "") + (w2 if w2 != "0" else "") + "c"
            model = py_format(cp, spec2)
            if model[0] == "OK" and model[1] == rs[1] and (f["prec"] is not None or extra):
                return "char-conversion-validation-and-padding"
        return None
    if grp and pk == "OK" and rk == "OK" and kind in ("int", "float", "bool"):
        if special or (isfloat and t is None):
            # exactly what the crate's separator insertion does with a magnitude text that is not a plain digit string
            if rs[1] in (crate_grouped_float(v, f, False), crate_grouped_float(v, f, True)):
                return "grouping-applies-width-as-zero-padding" if special else "grouping-no-type-float-exponent-form"
            if not special and f["prec"] is None:
                # the same with the other of two equally short round-trip digit strings (the repr tie, see below)
                for alt in repr_tie_variants(abs(v)):
                    if rs[1] == crate_grouped_float(v, f, False, raw=alt):
                        return "float-no-type-shortest-repr-tie-broken-differently"
            return None
        # exactly: with a grouping option the crate pads to the width with grouped zeros whether or not the zero flag /
        # '=' alignment was given, i.e. it prints what Python prints for the same spec with fill/align replaced by '0'
        try:
            model = format(v, (f["sign"] or "") + ("#" if f["alt"] else "") + "0" + (f["width"] or "") + grp + ("." + f["prec"] if f["prec"] is not None else "") + (t or ""))
        except (ValueError, TypeError, OverflowError):
            model = None
        if rs[1] == model:
            return "grouping-applies-width-as-zero-padding" if (f["width"] and not f["zero"] and f["align"] != "=") else "grouping-zero-padding-width-accounting"
        return None
    if isfloat and t is None and pk == "OK" and rk == "OK" and (f["prec"] is not None or f["alt"]) and not grp:
        # exactly: without a presentation type the crate formats with 'g' when a precision is given (Python keeps at least
        # one fractional digit) and ignores '#' when none is given (repr-style text)
        base = ((f["fill"] or "") + f["align"] if f["align"] else "") + (f["sign"] or "")
        tail = ("0" if f["zero"] else "") + (f["width"] or "")
        spec2 = base + tail if f["prec"] is None else base + ("#" if f["alt"] else "") + tail + "." + f["prec"] + "g"
        model = py_format(v, spec2)
        if f["prec"] is not None and v == v and abs(v) != float("inf"):
            # ... except where the two differ: 'g' turns to exponent form from decimal exponent p on, the crate (like Python
            # without a type) from p-1 on. At exponent p-1 the crate's text is Python's own, so a difference there is no
            # part of this deviation.
            pp = max(int(f["prec"]), 1)
            if pp <= 400 and int(("%.*e" % (pp - 1, abs(v))).split("e")[1]) == pp - 1:
                return None
        return "float-no-type-with-precision-or-alt" if model == rs else None
    return None


def _work(st, batch):
    res = core.Result("C18", "", 0)
    h = st[VARIANT]
    reqs = []
    for spec, kind, v in batch:
        if kind == "int":
            val = str(v)
        elif kind == "float":
            val = str(bits(v))
        elif kind == "str":
            val = q(v)
        else:
            val = "1" if v else "0"
        reqs.append("%s\t%s\t%s" % (q(spec), kind, val))
    lines = h.lines("fmt", reqs)
    for (spec, kind, v), rq, ln in zip(batch, reqs, lines):
        res.seen(rq)
        py = py_format(v, spec)
        parts = ln.split("\t")
        if parts[0] == "OK":
            rs = ("OK", bytes.fromhex(parts[1]).decode("utf-8", "replace"))
        elif parts[0] in ("ERR", "PARSEERR"):
            rs = ("ERR", parts[1])
        else:
            rs = ("PANIC", ln[:200])
        res.counters["%s:py-%s/rust-%s" % (kind, py[0], rs[0])] += 1
        f = fields(spec)
        if f:
            res.cover.setdefault("types_seen", Counter())[str(f["type"])] += 1
        if py[0] == rs[0] and (py[0] == "ERR" or py[1] == rs[1]):
            continue
        cls = classify(kind, v, spec, py, rs)
        res.add(cls or ("unlisted:panic" if rs[0] == "PANIC" else "unlisted:differs-from-python-format"),
                {"spec": spec, "kind": kind, "value": repr(v)[:40], "python": py, "rust": rs}, {"op": "fmt", "line": rq})
    if batch:
        res.sample({"spec": batch[0][0], "kind": batch[0][1], "value": repr(batch[0][2])[:30]})
    return res


def run(res):
    thorough = res.tier == "thorough"
    bins = core.build([VARIANT])
    rng = core.rng_for(res.seed, "c18")
    specs = gen_specs(rng, 900000 if thorough else 120000) + malformed(rng, 250000 if thorough else 30000)
    # a conversion prefix in front of well-formed specifications (the reference rejects all of them; what the crate does with
    # the rest of the text is pinned by the known class)
    specs += ["!" + c + sp for sp in specs[:(6000 if thorough else 1200)] for c in "srabx"]
    items = []
    specs = [s for s in specs if sane(s)]
    def rand_int():
        m = rng.choice([1, 2, 3, 5, 8, 16, 31, 32, 33, 63, 64, 65, 100, 200])
        v = rng.getrandbits(m)
        return -v if rng.random() < .4 else v

    def rand_float():
        k = rng.random()
        if k < .4:   # any bit pattern (subnormals, huge, tiny, NaN payloads)
            return struct.unpack("<d", struct.pack("<Q", rng.getrandbits(64)))[0]
        if k < .7:   # short decimals around rounding boundaries
            return float("%s%d.%s5" % (rng.choice(["", "-"]), rng.randrange(0, 10 ** rng.randint(0, 7)), "".join(rng.choice("0123456789") for _ in range(rng.randint(0, 6)))))
        return float("%s%de%d" % (rng.choice(["", "-"]), rng.randrange(1, 10 ** rng.randint(1, 17)), rng.randint(-30, 30)))

    def rand_str():
        return "".join(rng.choice("ab é日𝄞\t0{") for _ in range(rng.randint(0, 12)))
    for s in specs:
        k = rng.random()
        wild = rng.random() < (.5 if thorough else .3)
        if k < .4:
            items.append((s, "int", rand_int() if wild else rng.choice(INTS)))
        elif k < .8:
            items.append((s, "float", rand_float() if wild else rng.choice(FLOATS)))
        elif k < .93:
            items.append((s, "str", rand_str() if wild else rng.choice(STRS)))
        else:
            items.append((s, "bool", rng.random() < .5))
    # precisions from 2^31 on: both sides answer at once (an error, or text that is simply not truncated)
    for pr in ("2147483648", "2147483649", "4294967295", "4294967296", "9999999999", "99999999999999999", "9223372036854775807"):
        for pre in ("", "5", ">10", "é^7", "08", "+"):
            for t in ("", "s", "f", "d", "g", "%", "c", "x", "N"):
                sp = pre + "." + pr + t
                items.append((sp, "str", rng.choice(STRS)))
                items.append((sp, "float", rng.choice(FLOATS)))
                items.append((sp, "int", rng.choice(INTS)))
                items.append((sp, "bool", True))
    # a small exhaustive core grid
    for t in "bcdeEfFgGnosxX%" + " ":
        for w in ("", "8", "08"):
            for g in ("", ",", "_"):
                for p in ("", ".0", ".3"):
                    s = w + g + p + t.strip()
                    for v in (255, -1234567):
                        items.append((s, "int", v))
                    for v in (1234.5678, -0.5, float("inf")):
                        items.append((s, "float", v))
                    items.append((s, "str", "héllo"))
                    items.append((s, "bool", True))
    parts = core.pmap(_work, tw.batches(items, 3000), init=tw.init_state, initargs=(bins,))
    for p in parts:
        res.merge(p)
    res.rule = ("specifications drawn from the mini-language grammar (fill incl. multi-byte, 4 aligns, 3 signs, z, #, 0, widths, ',' '_', precisions, all 16 types and none), "
                "a small exhaustive core grid, and malformed strings x ints (incl. > 64 bit), doubles (incl. specials), strings with multi-byte characters, booleans; a case is "
                "(spec, kind, value), distinct by hash")
    res.assumptions = ["Python 3.11 format() in the C locale is the reference"]


def replay(w):
    bins = core.build([VARIANT])
    h = core.Harness(bins[VARIANT])
    print(h.lines("fmt", [w["witness"]["line"]]))
    return 0
