"""C13: row/column locations are correct and independent of the locator used.

Monitors: (1) every located range of the indexed (random-access) locator equals a naive model computed from the byte
range (1-based line, 1-based character column, CR/LF/CRLF one break each, leading BOM not counted); the model itself is
cross-checked against CPython's lineno/col for nodes whose byte range equals the reference's; (2) the incremental
(linear) locator returns the same located tree (in a debug-assertion build its built-in self-check panics are
observations); (3) error offsets convert the same way with both locators; (4) primitive level: both locators on all
non-decreasing offset pairs of all small texts (harness op `pos`).
"""
import json
from collections import Counter

from .. import pep695, core, layout, pyref, treework as tw
from . import c09

QUICK_VARIANTS = ["deflt", "deflt-chk"]


class Model:
    def __init__(self, b):
        self.b = b
        starts = [0]
        i, n = 0, len(b)
        while i < n:
            c = b[i]
            if c == 13:
                if i + 1 < n and b[i + 1] == 10:
                    i += 1
                starts.append(i + 1)
            elif c == 10:
                starts.append(i + 1)
            i += 1
        self.starts = starts
        self.bom = b.startswith(b"\xef\xbb\xbf")

    def loc(self, off):
        import bisect
        row = bisect.bisect_right(self.starts, off) - 1
        ls = self.starts[row]
        if row == 0 and self.bom and off >= 3:
            ls = 3
        col = len(self.b[ls:off].decode("utf-8", "replace"))
        return row + 1, col + 1


def loc_of(d):
    return (int(d["row"]["_n"]), int(d["column"]["_n"]))


def walk_pair(t, l, out):
    """parallel walk of the raw tree dump and the located dump; yields (byte range, located range, kind)"""
    if isinstance(t, dict) and isinstance(l, dict):
        r = t.get("range")
        lr = l.get("range")
        if isinstance(r, list) and len(r) == 2 and isinstance(lr, dict) and lr.get("_t") == "SourceRange":
            out.append((r, lr, t.get("_t")))
        for k, v in t.items():
            if k != "range" and k in l:
                walk_pair(v, l[k], out)
    elif isinstance(t, list) and isinstance(l, list) and len(t) == len(l):
        for a, b in zip(t, l):
            walk_pair(a, b, out)


def excuse_regions(text, tree, variant):
    """[(start, end, class)]: source regions where the linear locator is known to deviate."""
    rt = pyref.rust_tree(tree)
    b = text.encode("utf-8", "surrogatepass")
    out = []
    for n, p, f in pyref.walk(rt):
        t = n["_t"]
        if t == "ClassDef" and n["keywords"] and n["bases"]:
            ks = [k["_r"] for k in n["keywords"] if k.get("_r")]
            bs = [x["_r"] for x in n["bases"] if x.get("_r")]
            if ks and bs and min(k[0] for k in ks) < max(x[0] for x in bs):
                out.append((min(k[0] for k in ks + bs), max(k[1] for k in ks + bs), "linear-locator-class-keyword-before-base"))
        elif t == "JoinedStr" and n.get("_r"):
            pieces = [v.get("_r") for v in n["values"] if pyref.is_node(v)]
            if any(r != n["_r"] for r in pieces if r):
                out.append((n["_r"][0], n["_r"][1], "linear-locator-concatenated-fstring-pieces"))
            if b"\r\n" in b[n["_r"][0]:n["_r"][1]]:
                # C02 finding fstring-crlf-shifts-inner-ranges: a shifted range can start between CR and LF; the linear
                # locator then counts that line break twice and stays one line ahead for the rest of the file
                out.append((n["_r"][0], n["_r"][1], "linear-locator-offset-inside-crlf-from-shifted-fstring-range"))
        if variant.startswith("full"):
            if t == "arguments" and any(a[2] is not None for a in n.get("_awd", ())):
                out.append((n["_r"][0], n["_r"][1], "linear-locator-parameter-default-outside-its-range"))
            if t == "withitem" and p is not None and sum(1 for w in p["items"] if w["_r"] == n["_r"]) > 1:
                out.append((n["_r"][0], n["_r"][1], "linear-locator-shared-withitem-range"))
            if t == "Lambda" and not (n["args"]["posonlyargs"] or n["args"]["args"] or n["args"]["vararg"] or n["args"]["kwonlyargs"] or n["args"]["kwarg"]):
                out.append((n["_r"][0], n["_r"][1], "linear-locator-empty-lambda-arguments-range"))
    if variant.startswith("full") and b.startswith(b"\xef\xbb\xbf"):
        out.append((0, 3, "linear-locator-bom-module-range-starts-at-zero"))
    return out


def classify_linear(text, tree, variant, offsets):
    """Known only if every deviating offset lies inside one of the excuse regions."""
    regions = excuse_regions(text, tree, variant)
    if not regions:
        return None
    if offsets is None:
        # a panic without offsets in its message (slice arithmetic on a cursor that already went backwards)
        return sorted(regions)[0][2]
    cls = None
    backwards = [r for r in regions if r[2] != "linear-locator-concatenated-fstring-pieces"]
    first_back = min((r[0] for r in backwards), default=None)
    for o in offsets:
        hit = next((c for s, e, c in regions if s <= o <= e), None)
        if hit is None and first_back is not None and o >= first_back:
            # once the cursor has gone backwards (silently, without debug assertions) every later location is unreliable
            hit = next(c for s, e, c in sorted(backwards))
        if hit is None:
            return None
        cls = cls or hit
    return cls


def check_text(st, res, tag, text, variants, cp=True):
    b = text.encode("utf-8", "surrogatepass")
    M = Model(b)
    for v in variants:
        rep = st[v].json("locate", ["exec"], text)
        wit = {"op": "locate", "variant": v, "text": text, "tag": tag}
        res.seen(v + "\0" + text)
        if "panic" in rep and "tree" not in rep:
            res.add("unlisted:panic", rep, wit)
            continue
        if "err" in rep:
            want = M.loc(rep["offset"]) if 0 <= rep["offset"] <= len(b) else None
            res.counters["error-locations"] += 1
            for name in ("rand_loc", "lin_loc"):
                got = rep[name]
                if isinstance(got, dict):
                    cls = "unlisted:locate_error-panic"
                    if name == "lin_loc" and b.startswith(b"\xef\xbb\xbf") and rep["offset"] < 3:
                        cls = "linear-locator-offset-before-bom-end-panics"
                    res.add(cls, {"locator": name, "offset": rep["offset"], "panic": got}, wit)
                elif want is not None and tuple(got) != want:
                    res.add("unlisted:error-location-wrong", {"locator": name, "offset": rep["offset"], "got": got, "want": want}, wit)
            continue
        pairs = []
        walk_pair(rep["tree"], rep["rand"], pairs)
        res.counters["located-ranges:" + v] += len(pairs)
        bad = 0
        for r, lr, kind in pairs:
            if not (0 <= r[0] <= r[1] <= len(b)):
                continue
            want = (M.loc(r[0]), M.loc(r[1]))
            got = (loc_of(lr["start"]), loc_of(lr["end"]) if lr["end"] else None)
            if got != want:
                bad += 1
                if bad <= 2:
                    res.add("unlisted:random-locator-wrong", {"kind": kind, "range": r, "got": got, "want": want}, wit)
        if not rep["lin_equal"]:
            lin = rep["lin"]
            if isinstance(lin, dict) and "panic" in lin:
                import re as _re
                m = _re.match(r"(\d+) -> (\d+)", lin["panic"])
                offs = [int(m.group(2))] if m else None
                cls = classify_linear(text, rep["tree"], v, offs)
                res.add(cls or "unlisted:linear-locator-panic", {"panic": lin["panic"][:160], "loc": lin.get("loc")}, wit)
            else:
                lp = []
                walk_pair(rep["tree"], lin, lp)
                diffs = [(r, loc_of(x["start"]), loc_of(y["start"]), k) for (r, x, k), (_, y, _) in zip(lp, pairs) if x != y]
                offs = []
                for (r, x, k), (_, y, _) in zip(lp, pairs):
                    if x["start"] != y["start"]:
                        offs.append(r[0])
                    if x["end"] != y["end"]:
                        offs.append(r[1])
                cls = classify_linear(text, rep["tree"], v, offs)
                res.add(cls or "unlisted:linear-locator-differs-from-random", {"first": diffs[:2], "n": len(diffs)}, wit)
        else:
            res.counters["linear==random:" + v] += 1
    # cross-check the model against CPython for positioned nodes
    if cp:
        try:
            tree, L = pyref.py_parse(text, "exec")
        except pyref.PyReject:
            return
        import ast
        n = 0
        for node in ast.walk(tree):
            ln = getattr(node, "lineno", None)
            if ln is None or getattr(node, "end_lineno", None) is None:
                continue
            s = L.off(ln, node.col_offset)
            if s > len(b):
                continue
            row, col = M.loc(s)
            line = b[M.starts[ln - 1]:].split(b"\n")[0] if ln - 1 < len(M.starts) else b""
            colchars = len((line[3:] if ln == 1 and M.bom else line)[:node.col_offset].decode("utf-8", "replace"))
            n += 1
            if (row, col) != (ln, colchars + 1):
                res.add("unlisted:model-disagrees-with-reference-lines", {"offset": s, "model": (row, col), "reference": (ln, colchars + 1)}, {"op": "model", "text": text})
                break
        res.counters["model-vs-reference-positions"] += n


def _work(st, batch):
    res = core.Result("C13", "", 0)
    for tag, text, variants in batch:
        check_text(st, res, tag, text, variants)
        if len(res.samples) < 2 and len(text) < 200:
            res.sample({"tag": tag, "text": text})
    return res


ORDER = [
    "match x:\n case {'a': 1,\n       'b': [y, z],\n       'c': C(q=1),\n       **r}: pass\n case {1: a, 2: b}: pass\n", "match x:\n case C(a,\n        b=1,\n        c=[d,\n           *e]): pass\n",
    "class A(x=1, *b): pass\n", "class A(x=1,\n *b): pass\n", "class A(B, x=1): pass\n", "f(a=1, *b)\nf(**k, c=2)\n", "f(a=1,\n *b,\n **c)\n", "x = {**a, 'b': 1, **c}\n", "y = a if b else c\ny = (a\n if b\n else c)\n",
    "@d1\n@d2(x)\ndef f(a, b=1, *c, d=2, **e) -> r: pass\n", "@d\nclass C: pass\n", "x = f'{a}' f'{b!r:>{w}}'\n", "z = 'é' + f'''é{q}\n{r}'''\n", "x = ('a'\n f'{b}'\n 'c')\n", "x = f'{a:{b}}{c=}'\n",
    "def f(a, b=1): pass\n", "lambda a=1, *, b=2: 0\n", "lambda: 0\n", "match x:\n case {'a': 1, **r}: pass\n case C(a, b=2): pass\n case [a, *b]: pass\n", "with a as b, c as d: pass\n", "with (a, b): pass\n",
    "[x for y in z if w]\n", "{k: v for k, v in z}\n", "﻿x = 1\né = 2\r\ny = 3\rz = 4\n", "﻿", "﻿# c\n", "x = 1\r\n\r\ny = 'é𝄞' + z\r\n", "x = (\n  a,\r\n  b,\r  c)\n", "é𝄞日 = 'é𝄞日'; x = 1\n",
    "def f(\n    a,\n    b=1,\n    *args,\n    c,\n    d=2,\n    **kw\n): pass\n", "x = a < b < c\n", "x[a:b, c]\n", "a.b.c.d\n", "try: pass\nexcept E as e: pass\nelse: pass\nfinally: pass\n",
    "async def f():\n  async for x in y: await z\n  async with a as b: pass\n", "type X[T: int, *Ts, **P] = list[T]\n", "def f[T](x: T) -> T: pass\n", "global a, b\nimport a.b as c, d\nfrom . import (x,\n y as z)\n",
    "for i, (j, k) in x: pass\nelse: pass\n", "x = y = z = 1\nx += 1\nx: int = 1\n", "f(x for x in y)\n", "(y := f(x))\n", "assert a, b\nraise E from c\ndel a, b\n", "while a: break\nelse: continue\n",
]


def primitive_job(st, job):
    res = core.Result("C13", "", 0)
    r = st["deflt-chk"].json("pos", job)
    res.evaluations += r["queries"]
    res.counters["primitive-locator-queries"] += r["queries"]
    res.counters["primitive-locator-texts"] += r["texts"]
    res.distinct_extra += r["texts"]
    for m in r["shown"]:
        cls = "unlisted:primitive:" + m["what"]
        if m["what"].startswith("LinearLocator"):
            # offsets strictly inside a CRLF pair, or before the end of a leading BOM, never occur as node boundaries
            d = m["detail"]
            t = m["text"]
            offs = [int(x) for x in d.split()[1:3]] if d.startswith("offsets") else []
            tb = t.encode("utf-8")
            inside_crlf = any(0 < o < len(tb) and tb[o - 1:o + 1] == b"\r\n" for o in offs)
            bom0 = t.startswith("﻿") and any(o < 3 for o in offs)
            if inside_crlf:
                res.counters["primitive: offset inside a CRLF pair (not a node boundary, skipped)"] += 1
                continue
            if bom0:
                cls = "linear-locator-offset-before-bom-end-panics"
        res.add(cls, m, {"op": "pos", "args": list(job), "text": m["text"]})
    if r["mismatches"] > len(r["shown"]):
        res.counters["primitive-mismatches-not-listed"] += r["mismatches"] - len(r["shown"])
    return res


def run(res):
    thorough = res.tier == "thorough"
    variants = QUICK_VARIANTS + (["full-chk"] if thorough else [])
    allv = list(dict.fromkeys(variants + ["full-chk"]))
    bins = core.build(allv)
    rng = core.rng_for(res.seed, "c13")
    items = []
    progs = tw.corpus_programs(res.seed, 1200 if thorough else 150) + tw.generated_programs(res.seed, 10000 if thorough else 3000)
    for tag, text in progs:
        items.append((tag, text, variants))
        if len(text) < 40000:
            new, names = layout.compose(text, rng, names=rng.sample(["newline_style", "bom", "bracket_newlines", "backslash_joins", "blank_comment_lines", "reindent", "redundant_parens"], 3))
            if new:
                items.append(("layout:%s:%s" % ("+".join(names), tag), new, variants))
        if len(text) < 3000:
            for m in c09.mutations(text, rng, 1):
                items.append((tag + ":mut", m, variants))
    for i, s in enumerate(ORDER):
        for nl in ("\n", "\r\n", "\r"):
            items.append(("order:%d" % i, s.replace("\n", nl), allv))
    # every definition form x type parameters x parameter list / bases x decorator, on one line and with every part on
    # its own line (the linear locator must visit the parts in source order whatever the field order of the node)
    k = 0
    for head in ("def", "async def", "class"):
        for tp in ("", "[T]", "[T: int, *Ts, **P]", "[\n T,\n U: (int, str)\n]"):
            for args in (("()", "(a)", "(a, b=1, *c, d, e=2, **f)", "(\n a: T,\n /,\n b: U = 1,\n)") if head != "class" else ("", "()", "(B)", "(B, metaclass=M)", "(\n B[T],\n k=1,\n *bs,\n)")):
                for deco in ("", "@d\n", "@d1\n@d2(x,\n y)\n"):
                    ret = " -> T" if head != "class" and k % 2 else ""
                    body = ":\n    x: T = 1\n    return x\n" if head != "class" else ":\n    x: T\n"
                    text = "%s%s f%s%s%s%s" % (deco, head, tp, args, ret, body)
                    k += 1
                    for nl in ("\n", "\r\n"):
                        items.append(("defs:%d" % k, text.replace("\n", nl), allv))
    for i in range(res.seed * 1000, res.seed * 1000 + (1500 if thorough else 300)):
        built = pep695.build(i)
        if built:
            items.append(("pep695:%d" % i, built[0], variants))
    parts = core.pmap(_work, tw.batches(items, 20), init=tw.init_state, initargs=(bins,))
    for p in parts:
        res.merge(p)
    jobs = [("exhaustive", n, s, 4 if n >= 4 else 1, 1) for n in range(0, 5 if not thorough else 6) for s in range(4 if n >= 4 else 1)]
    jobs += [("random", res.seed * 100 + k, 300 if not thorough else 1500, 24, 1) for k in range(8)]
    for p in core.pmap(primitive_job, jobs, init=tw.init_state, initargs=({"deflt-chk": bins["deflt-chk"]},)):
        res.merge(p)
    res.rule = ("programs (corpus, generator) in their own layout and with CR/CRLF/mixed endings, BOM, continuation lines and re-indentation, seeded mutations (error offsets), "
                "%d directed programs whose tree order differs from source order (keyword before starred argument/base, dict unpacking, conditional expressions, decorators, "
                "f-strings, patterns, with-items) in three newline styles; release and debug-assertion builds (plus all-nodes-with-ranges in thorough and for the directed "
                "programs); primitive level: both locators on all non-decreasing offset pairs of all texts over {LF,CR,a,é,𝄞,BOM} up to length 4 (5 thorough) and random "
                "texts; a case is (build, text)" % len(ORDER))
    res.assumptions = ["naive line/column model in mon/checks/c13.py, cross-checked against CPython lineno/col on every positioned node"]


def replay(w):
    wi = w["witness"]
    v = wi.get("variant", "deflt-chk")
    bins = core.build([v] if v in core.VARIANTS else ["deflt-chk"])
    st = tw.State(bins)
    r = core.Result("C13", "replay", 0)
    check_text(st, r, "replay", wi["text"], list(bins))
    for o in r.obs:
        print(o.cls, o.detail)
    return 1 if r.obs else 0
