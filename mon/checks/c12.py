"""C12: Fold and Visitor traverse the whole tree faithfully; the constant-tuple optimiser is exact and idempotent.

The generic dump of the parsed tree is the independent walk: the identity fold must reproduce it, its range callback
must fire exactly once per range-carrying node, the default Visitor must reach every statement / expression / pattern /
handler exactly once, and ConstantOptimizer's output must equal a 10-line bottom-up rewrite of the dump.
"""
import json
from collections import Counter

from .. import core, pyref, treework as tw

VARIANT = "full"
PRODUCT = {"arguments", "arg", "keyword", "alias", "withitem", "match_case", "comprehension"}


def raw_ranges(d, out):
    """every `range: [s, e]` in the raw dump (all range-carrying nodes of the all-nodes-with-ranges build)"""
    if isinstance(d, dict):
        r = d.get("range")
        if isinstance(r, list) and len(r) == 2 and all(isinstance(x, int) for x in r):
            out[(r[0], r[1])] += 1
        for v in d.values():
            raw_ranges(v, out)
    elif isinstance(d, list):
        for x in d:
            raw_ranges(x, out)


def categories(t):
    if t in pyref.STMT_KINDS:
        return "s"
    if t in pyref.EXPR_KINDS:
        return "e"
    if t in pyref.PATTERN_KINDS:
        return "p"
    if t == "ExceptHandler":
        return "h"
    return None


def expected_visits(tree):
    allv, reach = Counter(), Counter()

    def go(n, blocked):
        if pyref.is_node(n):
            t = n["_t"]
            c = categories(t)
            if c and n.get("_r") is not None:
                key = (c, t, n["_r"][0], n["_r"][1])
                allv[key] += 1
                if not blocked:
                    reach[key] += 1
            b2 = blocked or t in PRODUCT
            for k, v in pyref.children(n):
                go(v, b2)
        elif isinstance(n, list):
            for x in n:
                go(x, blocked)
    go(tree, False)
    return allv, reach


def reference_optimise(n):
    if isinstance(n, list):
        return [reference_optimise(x) for x in n]
    if not pyref.is_node(n):
        return n
    out = {k: (reference_optimise(v) if k not in ("_r", "_awd") else v) for k, v in n.items()}
    if out["_t"] == "Tuple" and out.get("ctx") == "Load" and all(pyref.is_node(e) and e["_t"] == "Constant" for e in out["elts"]):
        return {"_t": "Constant", "_r": out["_r"], "value": tuple(e["value"] for e in out["elts"]), "kind": None}
    return out


def canon(x):
    return json.dumps(pyref.erase(x, drop=("_awd",)), sort_keys=True, default=repr)


# optional fields that hold a plain identifier / marker rather than a node
OPTIONAL_SCALARS = {"ExceptHandler": ("name",), "alias": ("asname",), "keyword": ("arg",), "MatchAs": ("name",), "MatchStar": ("name",), "MatchMapping": ("rest",),
                    "ImportFrom": ("module",), "Constant": ("kind",), "arg": ("type_comment",)}
# every (kind.field, state) the grammar can produce; a state the workload never produced is reported in the evidence
EXPECTED_STATES = None


def census(tree, shapes):
    for n, p, f in pyref.walk(tree):
        t = n["_t"]
        for k, v in pyref.children(n):
            if isinstance(v, list):
                shapes["%s.%s:len%s" % (t, k, "0" if len(v) == 0 else "1" if len(v) == 1 else "N")] += 1
            elif v is None:
                shapes["%s.%s:absent" % (t, k)] += 1
            elif pyref.is_node(v):
                shapes["%s.%s:present" % (t, k)] += 1
            elif k in OPTIONAL_SCALARS.get(t, ()):
                shapes["%s.%s:present" % (t, k)] += 1


def check_program(h, res, tag, text, mode, shapes):
    rep = h.json("foldvisit", [mode], text)
    wit = {"op": "foldvisit", "mode": mode, "text": text, "tag": tag}
    if rep.get("fail_swallowed"):
        res.add("unlisted:fold-swallows-callback-error", {"callback_indices": rep["fail_swallowed"][:10], "of": rep.get("fail_points")}, wit)
    if "fail_panic" in rep:
        res.add("unlisted:fold-panic", {"panic": rep["fail_panic"]}, wit)
    res.counters["fold error-injection points"] += rep.get("fail_points", 0)
    if "tree" not in rep:
        res.counters["not-parsed"] += 1
        return
    res.seen(mode + "\0" + text)
    tree = pyref.rust_tree(rep["tree"])
    census(tree, shapes)
    # (a) identity fold
    if "fold_panic" in rep:
        res.add("unlisted:fold-panic", rep["fold_panic"], wit)
    else:
        if not rep["fold_equal"]:
            d = pyref.Diff(text.encode("utf-8", "surrogatepass"), check_ranges=True)
            d.go(pyref.rust_tree(rep["folded"]), tree)
            res.add("unlisted:identity-fold-changes-tree", {"first": (d.tree[:1] or [x[:4] for x in d.ranges[:1]])}, wit)
        want = Counter()
        raw_ranges(rep["tree"], want)
        got = Counter((a, b) for a, b in rep["fold_ranges"])
        res.counters["range-callbacks"] += sum(got.values())
        if got != want or rep["fold_will"] != sum(want.values()):
            miss = list((want - got).items())[:3]
            extra = list((got - want).items())[:3]
            res.add("unlisted:range-callback-not-once-per-node", {"nodes": sum(want.values()), "map_user_calls": sum(got.values()), "will_map_user_calls": rep["fold_will"],
                                                                  "missing": miss, "extra": extra, "text": [text.encode()[a:b].decode("utf-8", "replace")[:40] for (a, b), _ in miss]}, wit)
    # (b) visitor
    if "visit_panic" in rep:
        res.add("unlisted:visitor-panic", rep["visit_panic"], wit)
    else:
        allv, reach = expected_visits(tree)
        got = Counter((c, k, a, b) for c, k, a, b in rep["visited"])
        res.counters["visits"] += sum(got.values())
        if got == allv:
            res.counters["visitor-complete"] += 1
        elif got == reach:
            miss = allv - got
            kinds = Counter(k[1] for k in miss.elements())
            res.add("visitor-does-not-descend-into-product-nodes", {"unreached": sum(miss.values()), "kinds": dict(kinds.most_common(4))}, wit)
        else:
            miss = list((reach - got).items())[:3]
            extra = list((got - allv).items())[:3]
            dup = [k for k, v in got.items() if v > allv.get(k, 0)][:3]
            res.add("unlisted:visitor-misses-or-repeats-nodes", {"missing": miss, "extra": extra, "dup": dup}, wit)
    # (b2) the same walk with the product nodes' empty hooks filled in by hand: now every node must be reached exactly once
    if "visit_deep_panic" in rep:
        res.add("unlisted:visitor-panic", rep["visit_deep_panic"], wit)
    elif "visited_deep" in rep:
        allv, _ = expected_visits(tree)
        got = Counter((c, k, a, b) for c, k, a, b in rep["visited_deep"])
        res.counters["visits (product-node hooks filled in)"] += sum(got.values())
        if got != allv:
            res.add("unlisted:visitor-with-product-hooks-misses-or-repeats-nodes", {"missing": list((allv - got).items())[:3], "extra": list((got - allv).items())[:3]}, wit)
        else:
            res.counters["visitor-complete (product-node hooks filled in)"] += 1
    # (c) optimiser
    if "opt_panic" in rep:
        res.add("unlisted:optimizer-panic", rep["opt_panic"], wit)
    else:
        want = canon(reference_optimise(tree))
        got = canon(pyref.rust_tree(rep["opt"]))
        if want != got:
            d = pyref.Diff(text.encode("utf-8", "surrogatepass"), check_ranges=True)
            d.go(pyref.rust_tree(rep["opt"]), reference_optimise(tree))
            res.add("unlisted:optimizer-output-differs-from-reference-rewrite", {"first": (d.tree[:1] or [x[:4] for x in d.ranges[:1]])}, wit)
        elif want != canon(tree):
            res.counters["programs-with-folded-tuples"] += 1
        if not rep["opt_idem"]:
            res.add("unlisted:optimizer-not-idempotent", {}, wit)


def _work(st, batch):
    res = core.Result("C12", "", 0)
    shapes = Counter()
    for tag, text, mode in batch:
        check_program(st[VARIANT], res, tag, text, mode, shapes)
        if len(res.samples) < 2 and len(text) < 200:
            res.sample({"tag": tag, "text": text})
    res.cover["field_shapes"] = shapes
    return res


DIRECTED = ["async def f[T: int, *Ts, **P](x: T) -> T: pass\n", "def f[T: (int, str), U: list[int]](): pass\n", "class C[T: int, *Ts](B[T], k=T): pass\n", "type X[T: int, **P] = list[T]\n",
            "async def g[T: Bound](a: T = d, *b: T, c: T = e, **k: T) -> T:\n    async for x in y: await z\n", "() = x\n", "(1, 2) = x\n", "del ()\n", "for () in x: pass\n", "x = ()\n", "x = (1, 2, (3, 'a', (None, ...)))\n", "x = (1, y)\n", "x = ((1, 2), [3, (4, 5)])\n", "f((1, 2), k=(3,))\n",
            "def f(a=(1, 2), *, b=((),)): return (1, 2)\n", "x[(1, 2)] = (3, 4)\n", "x[1, 2] = 3\n", "with a as (b, c): pass\n", "[(1, 2) for x in (3, 4) if (5,)]\n", "match x:\n case (1, 2): pass\n",
            "(1, 2)[0]\n", "x: (1, 2) = (3, 4)\n", "lambda a=(1, 2): (a, 1)\n", "f'{(1, 2)}'\n", "x = 1,\n", "x = 1, 2.5, 'a', b'b', True, None, ...\n", "(a, b), (1, 2) = y\n"]


def run(res):
    thorough = res.tier == "thorough"
    bins = core.build([VARIANT])
    items = [(t, s, "exec") for t, s in tw.corpus_programs(res.seed, 2500 if thorough else 400) + tw.generated_programs(res.seed, 25000 if thorough else 8000)]
    from .. import pep695
    for i in range(res.seed * 1000, res.seed * 1000 + (3000 if thorough else 1000)):
        b = pep695.build(i)
        if b:
            items.append(("pep695:%d" % i, b[0], "exec"))
    items += [(t, s, "eval") for t, s in tw.generated_expressions(res.seed, 6000 if thorough else 2000)]
    items += [("directed:%d" % i, s, "exec") for i, s in enumerate(DIRECTED)]
    parts = core.pmap(_work, tw.batches(items, 30), init=tw.init_state, initargs=(bins,))
    for p in parts:
        res.merge(p)
    shapes = res.cover.get("field_shapes", Counter())
    kinds = {k.split(".")[0] for k in shapes}
    res.cover["node_kinds_with_fields_seen"] = len(kinds)
    res.rule = ("trees of corpus, generated and PEP 695 programs and generated expressions (all-nodes-with-ranges build) plus %d directed constant-tuple programs; for each tree: "
                "identity fold equality, one range callback per range-carrying node, error injection (the callback fails at its k-th call, for every k of trees with at most 400 callbacks: the fold must return that error), visitor reach, optimiser vs reference rewrite, idempotence; the field-shape census lists which "
                "optional fields were present/absent and which list lengths (0/1/many) occurred per node kind; a case is one program" % len(DIRECTED))
    res.assumptions = ["the generic dump is the independent walk of the tree"]


def replay(w):
    bins = core.build([VARIANT])
    h = core.Harness(bins[VARIANT])
    r = core.Result("C12", "replay", 0)
    check_program(h, r, "replay", w["witness"]["text"], w["witness"].get("mode", "exec"), Counter())
    for o in r.obs:
        print(o.cls, o.detail)
    return 1 if r.obs else 0
