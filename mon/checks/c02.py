"""C02: node ranges are the exact source extent of each construct.

Three monitors over every successfully parsed valid program (all-nodes-with-ranges build):
  S  structural invariants of the range tree (inside input, char boundaries, start<=end, parent encloses child,
     list siblings ordered and disjoint),
  E  equality with the reference's extents (CPython line/col -> byte offsets),
  F  slice-reparse: source[range] re-parsed in a context template must give the same node with the same ranges
     (the oracle for node kinds the reference does not position, and a second opinion for the others).
"""
import json
import re
from collections import Counter

from .. import core, layout, pep695, pyref, treework as tw

VARIANT = "full"
is_node = pyref.is_node


# ----------------------------------------------------------------------------- S: structural
def structural(res, rt, b, wit):
    n = len(b)

    def boundary(o):
        return o == n or (0 <= o < n and (b[o] & 0xC0) != 0x80)

    fstr = []  # enclosing f-string literals

    def visit(node, parent, field):
        r = node.get("_r")
        t = node["_t"]
        if r is not None:
            res.counters["S:ranges"] += 1
            if not (0 <= r[0] <= r[1] <= n):
                res.add("unlisted:range-outside-input", {"node": t, "range": r, "len": n}, wit)
            elif not (boundary(r[0]) and boundary(r[1])):
                crlf = any(b"\r\n" in b[f[0]:f[1]] for f in fstr)
                res.add("fstring-crlf-shifts-inner-ranges" if crlf else "unlisted:range-off-char-boundary", {"node": t, "range": r}, wit)
        if t == "JoinedStr" and r is not None:
            fstr.append(r)
            try:
                return visit_children(node, r, t)
            finally:
                fstr.pop()
        return visit_children(node, r, t)

    def visit_children(node, r, t):
        for awd in node.get("_awd", ()):
            ar, dr, vr = awd
            if ar is not None and vr is not None and not (ar[0] <= vr[0] and vr[1] <= ar[1]):
                res.add("argwithdefault-range-excludes-default", {"awd": ar, "default": vr, "text": b[ar[0]:vr[1]].decode("utf-8", "replace")[:60]}, wit)
            elif ar is not None and dr is not None and not (ar[0] <= dr[0] and dr[1] <= ar[1]):
                res.add("unlisted:argwithdefault-not-enclosing-arg", {"awd": ar, "arg": dr}, wit)
        for k, v in pyref.children(node):
            kids = v if isinstance(v, list) else [v]
            prev = None
            for c in kids:
                if not is_node(c):
                    continue
                cr = c.get("_r")
                if r is not None and cr is not None and not (t in ("FunctionDef", "AsyncFunctionDef", "ClassDef") and k == "decorator_list"):
                    if not (r[0] <= cr[0] and cr[1] <= r[1]):
                        if t == "Module":
                            pass
                        else:
                            res.add(classify_enclosure(node, k, c, b), {"parent": t, "field": k, "prange": r, "child": c["_t"], "crange": cr,
                                                                    "text": b[min(r[0], cr[0]):max(r[1], cr[1])].decode("utf-8", "replace")[:80]}, wit)
                if isinstance(v, list) and cr is not None and not (t == "JoinedStr" and k == "values"):
                    if prev is not None and cr[0] < prev[1]:
                        res.add(classify_order(node, k, prev, cr, b), {"parent": t, "field": k, "prev": prev, "next": cr}, wit)
                    prev = cr
                visit(c, node, k)
    visit(rt, None, None)


def classify_enclosure(parent, field, child, b):
    return "unlisted:parent-does-not-enclose-child"


def classify_order(parent, field, prev, cur, b):
    if field == "items" and parent["_t"] in ("With", "AsyncWith") and prev == cur:
        return "withitem-parenthesised-group-shares-one-range"
    return "unlisted:siblings-out-of-order-or-overlapping"


# ----------------------------------------------------------------------------- F: slice-reparse
def _canon(n):
    return json.dumps(pyref.erase(n, drop=("ctx", "_awd", "decorator_list")), sort_keys=True, default=repr)


def _line_prefix(b, s):
    ls = max(b.rfind(b"\n", 0, s), b.rfind(b"\r", 0, s)) + 1
    p = b[ls:s]
    if p.startswith(b"\xef\xbb\xbf") and ls == 0:
        p = p[3:]
    # a form feed resets the column count; only what follows the last one is indentation
    if p.strip(b" \t\x0c") != b"":
        return None
    cur = p.rsplit(b"\x0c", 1)[-1]
    # physical lines of nothing but blanks and a backslash above it belong to the same logical line: the blanks in front of
    # the first of those backslashes (if any) are its indentation, whatever the line itself starts with
    while ls > 0:
        pe = ls - 1
        if b[pe:pe + 1] == b"\n" and b[pe - 1:pe] == b"\r":
            pe -= 1
        pls = max(b.rfind(b"\n", 0, pe), b.rfind(b"\r", 0, pe)) + 1
        prev = b[pls:pe]
        if not prev.endswith(b"\\") or prev[:-1].strip(b" \t\x0c") != b"":
            break
        q = prev[:-1].rsplit(b"\x0c", 1)[-1]
        if q:
            cur = q
        ls = pls
    return cur


def template(node, parent, field, b):
    """Returns (prefix_bytes, suffix_bytes, mode, path) or None. `path` navigates the reparsed canonical tree."""
    r = node["_r"]
    t = node["_t"]
    s = r[0]
    if t in pyref.EXPR_KINDS:
        if parent is not None and ((parent["_t"] == "JoinedStr" and field == "values") or (parent["_t"] == "FormattedValue" and field == "format_spec")):
            return None  # pieces and specs carry the whole literal's extent by definition
        if t == "Starred":
            return b"f(", b")", "eval", ["body", "args", 0]
        if t == "Slice":
            return b"_[", b"]", "eval", ["body", "slice"]
        if t == "Tuple":
            return [(b"_[", b"]", "eval", ["body", "slice"]), (b"(", b")", "eval", ["body"])]
        return b"(", b")", "eval", ["body"]
    if t in pyref.STMT_KINDS:
        pre = _line_prefix(b, s)
        if pre is None:
            pre = b" " if b[s:s + 4] != b"elif" else None
            if pre is None:
                return None
        if b[s:s + 4] == b"elif" and t == "If":
            head = pre + b"if 0: pass\n" + pre
            path = ["body", 0, "orelse", 0]
        else:
            head = pre
            path = ["body", 0]
        if pre:
            return b"if 1:\n" + head, b"\n", "exec", ["body", 0] + path
        return head, b"\n", "exec", path
    if t == "ExceptHandler":
        pre = _line_prefix(b, s)
        if pre is None:
            return None
        head = pre + b"try: pass\n" + pre
        if pre:
            return b"if 1:\n" + head, b"\n", "exec", ["body", 0, "body", 0, "handlers", 0]
        return head, b"\n", "exec", ["body", 0, "handlers", 0]
    if t == "match_case":
        pre = _line_prefix(b, s)
        if not pre:
            return None
        return b"match _:\n" + pre, b"\n", "exec", ["body", 0, "cases", 0]
    if t in pyref.PATTERN_KINDS:
        if t == "MatchStar":
            return b"match _:\n case [", b"]: pass\n", "exec", ["body", 0, "cases", 0, "pattern", "patterns", 0]
        return b"match _:\n case ", b": pass\n", "exec", ["body", 0, "cases", 0, "pattern"]
    if t == "arguments":
        if parent is not None and parent["_t"] == "Lambda":
            return b"(lambda ", b": 0)", "eval", ["body", "args"]
        return b"def f(", b"): pass\n", "exec", ["body", 0, "args"]
    if t == "arg":
        if parent is not None and parent["_t"] == "arguments" and field == "vararg":
            return b"def f(*", b"): pass\n", "exec", ["body", 0, "args", "vararg"]
        return b"def f(", b"): pass\n", "exec", ["body", 0, "args", "args", 0]
    if t == "keyword":
        return b"f(", b")", "eval", ["body", "keywords", 0]
    if t == "alias":
        if parent is not None and parent["_t"] == "ImportFrom":
            if b[r[0]:r[1]] == b"*":
                return b"from . import ", b"\n", "exec", ["body", 0, "names", 0]
            return b"from . import (", b")\n", "exec", ["body", 0, "names", 0]
        return b"import ", b"\n", "exec", ["body", 0, "names", 0]
    if t == "withitem":
        return [(b"with ", b": pass\n", "exec", ["body", 0, "items", 0]), (b"with (", b",): pass\n", "exec", ["body", 0, "items", 0]),
                (b"with _, ", b": pass\n", "exec", ["body", 0, "items", 1])]
    if t == "comprehension":
        return b"[_ ", b"]", "eval", ["body", "generators", 0]
    if t in ("TypeVar", "TypeVarTuple", "ParamSpec"):
        return b"def f[", b"](): pass\n", "exec", ["body", 0, "type_params", 0]
    return None


def slice_reparse(h, res, node, parent, field, b, wit, known_nodes, matched=(), crlf_fstrings=()):
    r = node.get("_r")
    if r is None:
        return
    tpl = template(node, parent, field, b)
    if tpl is None:
        res.counters["F:no-template:" + node["_t"]] += 1
        return
    cands = tpl if isinstance(tpl, list) else [tpl]
    res.counters["F:reparsed"] += 1
    res.counters["F:kind:" + node["_t"]] += 1
    key = (node["_t"], r[0], r[1])
    detail = {"node": node["_t"], "range": r, "slice": b[r[0]:r[1]].decode("utf-8", "replace")[:120]}
    want = _canon(node)
    failure = None
    for pre, suf, mode, path in cands:
        text = pre + b[r[0]:r[1]] + suf
        rep = h.json("parse", [mode, 0], text)
        if "ok" not in rep:
            failure = failure or ("unlisted:slice-does-not-reparse", rep.get("err") or rep.get("panic"), None)
            continue
        got = pyref.rust_tree(rep["ok"])
        try:
            for p in path:
                got = got[p]
        except (KeyError, IndexError, TypeError):
            failure = ("unlisted:slice-reparses-to-other-construct", None, None)
            continue
        got = pyref.shift(got, r[0] - len(pre))
        if _canon(got) == want:
            return
        failure = ("unlisted:slice-reparse-differs", None, got)
    if key in matched:
        # the extent equals the one the reference assigns, which is what the property prescribes for this node kind
        res.counters["F:disagrees-but-extent-equals-reference:" + node["_t"]] += 1
        return
    cls, err, got = failure
    known = known_nodes.get(key) or _known_own_extent(node, parent, field, b)
    if known is None and any(f[0] <= r[0] + 8 and r[1] <= f[1] + 8 for f in crlf_fstrings):
        known = "fstring-crlf-shifts-inner-ranges"
    if err:
        detail["err"] = err
    if got is not None:
        d = pyref.Diff(b, check_ranges=True)
        d.go(pyref.erase(node, drop=("ctx", "_awd", "decorator_list")), pyref.erase(got, drop=("ctx", "_awd", "decorator_list")))
        detail["diff"] = (d.tree[:2] + d.ranges[:2])
    res.add(known or cls, detail, wit)


def arbitrate_fstring_extent(h, res, cls, rr, rnode_, rparent_, b, wit):
    """The reference locates field expressions by substring search and is unreliable inside f-string fields; C07
    prescribes the expression's own text, so the slice-reparse monitor arbitrates. True = the parser's extent is the
    construct's own text (nothing to report)."""
    if cls != "unlisted:range-inside-fstring-field" or rr is None:
        return False
    probe = core.Result("C02", "", 0)
    fld = "value"
    if isinstance(rparent_, dict):
        for k_, v_ in rparent_.items():
            if v_ is rnode_ or (isinstance(v_, list) and any(x_ is rnode_ for x_ in v_)):
                fld = k_
    slice_reparse(h, probe, rnode_, rparent_, fld, b, wit, {}, ())
    if not probe.obs and probe.counters["F:reparsed"]:
        res.counters["E:reference-extent-quirk-inside-fstring (own text confirmed by reparse)"] += 1
        return True
    return False


def _known_own_extent(node, parent, field, b):
    t = node["_t"]
    r = node["_r"]
    if t == "arguments" and not (node["posonlyargs"] or node["args"] or node["vararg"] or node["kwonlyargs"] or node["kwarg"]) and r[0] != r[1]:
        return "empty-arguments-range-not-empty"
    if t == "withitem":
        own = [node["context_expr"]["_r"][0], (node["optional_vars"] or node["context_expr"])["_r"][1]]
        if r != own and r[0] <= own[0] and own[1] <= r[1] and parent is not None and sum(1 for w in parent["items"] if w["_r"] == r) > 1:
            return "withitem-parenthesised-group-shares-one-range"
    return None


def classify_slice_failure(node, parent, field, b):
    return _known_own_extent(node, parent, field, b)


def classify_slice_difference(node, got, parent, field, b):
    return _known_own_extent(node, parent, field, b)


# ----------------------------------------------------------------------------- per program
def check_program(h, res, tag, text, rng, nodes_budget):
    if tag.startswith("pep695:"):
        out = pep695.check_program(h, res, tag, "", Counter(), check_ranges=True, report_tree=False,
                                   arbitrate=lambda cls, rr, rn, rp, bb, ww: arbitrate_fstring_extent(h, res, cls, rr, rn, rp, bb, ww))
        if not out:
            return
        rt, pt, text = out
        b = text.encode()
        wit = {"op": "parse", "mode": "exec", "text": text, "tag": tag}
        known_nodes = {}
        d = pyref.Diff(b, check_ranges=True)
        d.go(rt, pt)
        matched = d.matched
        for cls, path, rr, pr, summ, rnode_, rparent_ in d.ranges:
            if rr is not None:
                known_nodes[(summ.split("@")[0], rr[0], rr[1])] = cls if not cls.startswith("unlisted") else None
    else:
        try:
            tree, L = pyref.py_parse(text, "exec")
        except pyref.PyReject:
            res.counters["reference-rejects"] += 1
            return
        if tw.excluded_reason(tree, text):
            res.counters["excluded"] += 1
            return
        b = text.encode("utf-8", "surrogatepass")
        rep = h.json("parse", ["exec", 0], text)
        if "ok" not in rep:
            res.counters["not-parsed (C01's business)"] += 1
            return
        res.seen(text)
        wit = {"op": "parse", "mode": "exec", "text": text, "tag": tag}
        pt = pyref.pnode(tree, L)
        rt = pyref.rust_tree(rep["ok"])
        d = pyref.Diff(b, check_ranges=True)
        d.go(rt, pt)
        res.counters["E:nodes-compared"] += d.nodes
        matched = d.matched
        known_nodes = {}
        for cls, path, rr, pr, summ, rnode_, rparent_ in d.ranges:
            if rr is not None:
                known_nodes[(summ.split("@")[0], rr[0], rr[1])] = cls if not cls.startswith("unlisted") else None
        for cls, path, rr, pr, summ, rnode_, rparent_ in d.ranges[:30]:
            if arbitrate_fstring_extent(h, res, cls, rr, rnode_, rparent_, b, wit):
                continue
            res.add(cls, {"path": re.sub(r"\[\d+\]", "[]", path)[-80:], "rust": rr, "reference": pr, "node": summ[:100]}, wit)
    structural(res, rt, b, wit)
    nodes = [(n, p, f) for n, p, f in pyref.walk(rt) if n.get("_r") is not None and n["_t"] not in ("Module", "Interactive", "Expression")]
    res.counters["nodes-with-range"] += len(nodes)
    if len(nodes) > nodes_budget:
        nodes = rng.sample(nodes, nodes_budget)
    crlf = [n["_r"] for n, p, f in pyref.walk(rt) if n["_t"] == "JoinedStr" and n.get("_r") and b"\r\n" in b[n["_r"][0]:n["_r"][1]]]
    for n, p, f in nodes:
        slice_reparse(h, res, n, p, f, b, wit, known_nodes, matched, crlf)
    if len(res.samples) < 2 and len(text) < 300:
        res.sample({"tag": tag, "text": text})


def _work(st, batch):
    h = st[VARIANT]
    res = core.Result("C02", "", 0)
    for tag, text, budget, seed in batch:
        check_program(h, res, tag, text, core.rng_for(seed, tag), budget)
    return res


def workload(res):
    thorough = res.tier == "thorough"
    seed = res.seed
    rng = core.rng_for(seed, "c02")
    progs = tw.corpus_programs(seed, 1500 if thorough else 200) + tw.generated_programs(seed, 12000 if thorough else 4000)
    items = []
    budget_small = 10 ** 9 if thorough else 60
    for tag, text in progs:
        big = len(text) > 8000
        items.append((tag, text, (400 if thorough else 40) if big else budget_small, seed))
        # hostile layouts of the same program
        if len(text) < 60000:
            for k in range(2 if thorough else 1):
                new, applied = layout.compose(text, rng)
                if new is not None:
                    items.append(("layout:%s:%s" % ("+".join(applied), tag), new, (200 if thorough else 30) if big else budget_small, seed))
    items += [("pep695:%d" % i, "", budget_small, seed) for i in range(seed * 100000, seed * 100000 + (3000 if thorough else 800))]
    return items


def run(res):
    bins = core.build([VARIANT])
    items = workload(res)
    core.rng_for(res.seed, "shuffle").shuffle(items)
    parts = core.pmap(_work, tw.batches(items, 12), init=tw.init_state, initargs=(bins,))
    for p in parts:
        res.merge(p)
    res.cover["slice_reparse_kinds"] = Counter({k[7:]: v for k, v in res.counters.items() if k.startswith("F:kind:")})
    res.cover["layout_rewrites_used"] = Counter(x for t in [] for x in t)
    res.rule = ("valid programs (corpus, generator, PEP 695 insertions) in their own and in seeded hostile layouts (CRLF/CR, BOM, "
                "continuations, comments, re-indentation, redundant parentheses); for each: structural range invariants on every "
                "node, equality with the reference's extents on every positioned node, slice-reparse on a seeded sample of nodes "
                "(all nodes in thorough for programs < 8 kB); a case is one program text, distinct by hash")
    res.assumptions = ["CPython 3.11 positions are the reference extents", "templates in mon/checks/c02.py give each construct a valid context"]


def replay(w):
    bins = core.build([VARIANT])
    h = core.Harness(bins[VARIANT])
    res = core.Result("C02", "replay", 0)
    wi = w["witness"]
    check_program(h, res, wi.get("tag", "replay"), wi["text"], core.rng_for(0, "replay"), 10 ** 9)
    for o in res.obs:
        print(o.cls, o.detail)
    return 1 if res.obs else 0
