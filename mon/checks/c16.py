"""C16: repr of text and bytes is a literal that decodes back to the same value.

Differential + round-trip oracle: Python's repr / ast.literal_eval and this parser's own Constant::parse; layout length
vs produced length; quote choice; `changed()` consistency. Exhaustive for byte strings of length <= 2 and single code
points (sampled in quick), pairs over a class-representative alphabet, random strings.
"""
import ast
import unicodedata
from collections import Counter

from .. import core, sanitize, treework as tw

VARIANT = "deflt-chk"
NONPRINT = {"Cc", "Cf", "Cs", "Co", "Cn", "Zl", "Zp", "Zs"}


def printable_class(cat):
    return cat not in NONPRINT


_old = unicodedata.ucd_3_2_0


def version_independent(ch):
    """Printable status does not depend on the Unicode version: the 3.2 table and the interpreter's agree."""
    if ch == " ":
        return True
    return printable_class(_old.category(ch)) == printable_class(unicodedata.category(ch))


ALPHABET = ["'", '"', "\\", "\n", "\t", "\r", "\x00", "\x07", "\x1b", "\x7f", " ", "a", "Z", "0", "~", "\x80", "\x9f", "\xa0", "\xad", "é", "ÿ",
            "Ā", " ", " ", "​", "‎", " ", " ", "　", "﻿", "", "", "퟿", "𐀀", "𝄞", "😀", "󠀁", "󰀀", "\U0010ffff", "͸", "﷐", "￾"]


def _boundaries():
    """Code points next to every numeric boundary an escape writer can branch on: powers of two, plane starts/ends,
    the surrogate gap, the per-plane noncharacters and U+FDD0..U+FDEF."""
    out = set()
    for k in range(0, 21):
        out.update(range(max(0, 2 ** k - 2), 2 ** k + 3))
    for plane in range(0, 17):
        out.update(range(max(0, plane * 0x10000 - 3), plane * 0x10000 + 3))
    out.update(range(0xD7F0, 0xD800))
    out.update(range(0xE000, 0xE010))
    out.update(range(0xFDC0, 0xFE00))
    out.update(range(0x10FFF0, 0x110000))
    # both sides of every change of general category (holes of unassigned code points inside blocks, block edges)
    import unicodedata
    prev = None
    for c in range(0x110000):
        cat = unicodedata.category(chr(c))
        if cat != prev:
            out.update((c - 1, c))
            prev = cat
    return sorted(c for c in out if 0 <= c < 0x110000 and not (0xD800 <= c <= 0xDFFF))


BOUNDARY = _boundaries()


def q(s):
    return s.encode("utf-8", "surrogatepass").hex()


def check_str(res, s, line, cats):
    f = line.split("\t")
    wit = {"op": "repr", "kind": "s", "value_hex": q(s)}
    if f[0] != "OK":
        res.add("unlisted:panic-or-error", {"value": ascii(s), "line": line[:200]}, wit)
        return
    rep = bytes.fromhex(f[1]).decode("utf-8", "replace")
    ln, quote, changed, decode, same, drep, dlen, fs, fd, utf8, body = f[2], f[3], f[4], f[5], f[6], bytes.fromhex(f[7]).decode("utf-8", "replace"), f[8], bytes.fromhex(f[9]).decode("utf-8", "replace"), bytes.fromhex(f[10]).decode("utf-8", "replace"), f[11], bytes.fromhex(f[12]).decode("utf-8", "replace")

    def bad(what, **kw):
        kw.update(value=ascii(s), repr=ascii(rep))
        res.add("unlisted:" + what, kw, wit)
    if utf8 != "1":
        bad("output-not-utf8")
    for name, r in (("repr", rep), ("double-preferred", drep), ("forced-single", fs), ("forced-double", fd)):
        try:
            v = ast.literal_eval(r)
        except (SyntaxError, ValueError) as e:
            bad("not-a-python-literal", variant=name, text=ascii(r), error=str(e)[:60])
            continue
        if v != s:
            bad("python-decodes-to-other-value", variant=name, text=ascii(r))
    if decode != "ok":
        bad("parser-does-not-decode-back", status=decode)
    want_quote = '"' if ("'" in s and '"' not in s) else "'"
    if rep[:1] != want_quote or rep[-1:] != want_quote or quote != ("d" if want_quote == '"' else "s"):
        bad("quote-choice", want=want_quote)
    dq = "'" if ('"' in s and "'" not in s) else '"'
    if drep[:1] != dq:
        bad("quote-choice-double-preferred", want=dq, text=ascii(drep))
    if fs[:1] != "'" or fd[:1] != '"':
        bad("forced-quote-ignored")
    # the layout announces the length of the body (between the quotes), in bytes
    if ln == "-" or int(ln) != len(rep.encode("utf-8")) - 2:
        bad("layout-length-differs-from-output", layout=ln, produced=len(rep.encode("utf-8")) - 2)
    if dlen == "-" or int(dlen) != len(drep.encode("utf-8")) - 2:
        bad("layout-length-differs-from-output", layout=dlen, produced=len(drep.encode("utf-8")) - 2, variant="double")
    if same != "1":
        bad("to_string-differs-from-display", same=same)
    if changed == "0" and body != s:
        bad("changed-false-but-output-differs")
    if changed == "1" and body == s:
        res.counters["changed-true-but-identical (allowed)"] += 1
    if all(version_independent(c) for c in s):
        res.counters["compared-with-python-repr"] += 1
        if rep != repr(s):
            bad("differs-from-python-repr", python=ascii(repr(s)))
    else:
        res.counters["version-dependent-skipped"] += 1
    for c in s[:2]:
        cats[unicodedata.category(c)] += 1


def check_bytes(res, b, line):
    f = line.split("\t")
    wit = {"op": "repr", "kind": "b", "value_hex": b.hex()}
    if f[0] != "OK":
        res.add("unlisted:panic-or-error", {"value": repr(b), "line": line[:200]}, wit)
        return
    rep = bytes.fromhex(f[1]).decode("utf-8", "replace")
    ln, quote, changed, decode, same, drep, dlen, fs, fd, utf8, named = f[2], f[3], f[4], f[5], f[6], bytes.fromhex(f[7]).decode("utf-8", "replace"), f[8], bytes.fromhex(f[9]).decode("utf-8", "replace"), bytes.fromhex(f[10]).decode("utf-8", "replace"), f[11], f[12]

    def bad(what, **kw):
        kw.update(value=repr(b), repr=ascii(rep))
        res.add("unlisted:" + what, kw, wit)
    if utf8 != "1":
        bad("output-not-utf8")
    if rep != repr(b):
        bad("differs-from-python-repr", python=repr(b))
    for name, r in (("double-preferred", drep), ("forced-single", fs), ("forced-double", fd)):
        try:
            if ast.literal_eval(r) != b:
                bad("python-decodes-to-other-value", variant=name, text=ascii(r))
        except (SyntaxError, ValueError) as e:
            bad("not-a-python-literal", variant=name, text=ascii(r), error=str(e)[:60])
    if decode != "ok":
        bad("parser-does-not-decode-back", status=decode)
    if ln == "-" or int(ln) != len(rep) - 3:
        bad("layout-length-differs-from-output", layout=ln, produced=len(rep) - 3)
    if dlen == "-" or int(dlen) != len(drep) - 3:
        bad("layout-length-differs-from-output", layout=dlen, produced=len(drep) - 3, variant="double")
    if named == "-" or int(named) != len(rep) - 3:
        bad("named-layout-length", layout=named, expected=len(rep) - 3)
    if same != "1":
        bad("to_string-differs-from-display", same=same)
    if changed == "0" and rep[2:-1].encode("latin-1", "replace") != b:
        bad("changed-false-but-output-differs")


def _work(st, batch):
    res = core.Result("C16", "", 0)
    h = st[VARIANT]
    cats = Counter()
    kind, vals = batch
    lines = h.lines("repr", [("s " + q(v)) if kind == "s" else ("b " + v.hex()) for v in vals])
    if len(lines) != len(vals):
        res.inconclusive.append("harness returned %d lines for %d requests" % (len(lines), len(vals)))
        return res
    for v, line in zip(vals, lines):
        res.seen(v if kind == "b" else v.encode("utf-8", "surrogatepass"), nontrivial=len(v) > 0)
        if kind == "s":
            check_str(res, v, line, cats)
        else:
            check_bytes(res, v, line)
    res.cover["categories_seen"] = cats
    if vals:
        res.sample({"kind": kind, "value": ascii(vals[len(vals) // 2])})
    return res


def workload(res):
    thorough = res.tier == "thorough"
    rng = core.rng_for(res.seed, "c16")
    B, S = [], []
    B.append(b"")
    B += [bytes([a]) for a in range(256)]
    B += [bytes([a, b]) for a in range(256) for b in (range(256) if thorough else rng.sample(range(256), 40))]
    for _ in range(200000 if thorough else 30000):
        n = rng.randint(3, 64)
        B.append(bytes(rng.choice([rng.randrange(256), rng.choice(b"'\"\\\n\t ab\x00\x7f\x80\xff")]) for _ in range(n)))
    # long runs of the characters that are counted (quotes) or that change the length (escapes), around the sizes where a
    # narrow counter would wrap
    for n in (127, 128, 129, 254, 255, 256, 257, 258, 300, 511, 512, 513, 768, 1000, 1024, 4096, 65535, 65536, 65537):
        for unit in (b"'", b'"', b"\\", b"\n", b"\x00", b"\xff", b"a"):
            B.append(unit * n)
            B.append(unit * n + b"'")
            B.append(b'"' + unit * n)
            B.append(unit * (n // 2) + b"'\"" + unit * (n - n // 2))
        B.append(b"'" * n + b'"' * n)
        B.append(b"'" * n + b'"' * (n - 1))
        B.append(b"'" * (n - 1) + b'"' * n)
    S.append("")
    for n in (127, 128, 129, 254, 255, 256, 257, 258, 300, 511, 512, 513, 768, 1000, 1024, 4096, 65535, 65536, 65537):
        for unit in ("'", '"', "\\", "\n", "\x00", "\x7f", "é", "\u0800", "\U0001F600", "\u0378", "a"):
            S.append(unit * n)
            S.append(unit * n + "'")
            S.append('"' + unit * n)
            S.append(unit * (n // 2) + "'\"" + unit * (n - n // 2))
        S.append("'" * n + '"' * n)
        S.append("'" * n + '"' * (n - 1))
        S.append("'" * (n - 1) + '"' * n)
    step = 1 if thorough else 5
    start = 0 if thorough else res.seed % 5
    cps = [c for c in range(start, 0x110000, step) if not (0xD800 <= c <= 0xDFFF)]
    if not thorough:
        cps = sorted(set(cps) | set(range(0, 0x3000)) | set(BOUNDARY))
    S += [chr(c) for c in cps]
    S += [a + chr(c) + b for c in BOUNDARY for a, b in (("a", ""), ("", "'"), ("\\", "\""))]
    S += [a + b for a in ALPHABET for b in ALPHABET]
    pool = ALPHABET + [chr(rng.randrange(0x20, 0x7f)) for _ in range(30)]
    for _ in range(200000 if thorough else 30000):
        n = rng.randint(1, 64)
        S.append("".join(rng.choice(pool) if rng.random() < .8 else chr(rng.choice([rng.randrange(0, 0xD800), rng.randrange(0xE000, 0x110000)])) for _ in range(n)))
    return B, S


def run(res):
    bins = core.build([VARIANT, "deflt"])
    B, S = workload(res)
    jobs = [("b", x) for x in tw.batches(B, 4000)] + [("s", x) for x in tw.batches(S, 4000)]
    parts = core.pmap(_work, jobs, init=tw.init_state, initargs=({VARIANT: bins[VARIANT]},))
    for p in parts:
        res.merge(p)
    # the unchecked fast path (from_utf8_unchecked) under valgrind; Miri in thorough
    short = lambda vals: [x for x in vals if len(x) <= 64][:300]   # (the interpreters need seconds per kilobyte)
    sample = ["b " + bytes(x).hex() for x in short(B)] + ["s " + q(x) for x in short(S)]
    sanitize.batch_under_tools(res, bins, "repr", [], ("\n".join(sample) + "\n").encode(), tools=("valgrind", "miri") if res.tier == "thorough" else ("valgrind",), what="repr batch of 600")
    res.exhaustive = res.tier == "thorough"
    res.cover["byte_strings"] = len(B)
    res.cover["strings"] = len(S)
    res.rule = ("byte strings: all of length <= 1, length 2 (all in thorough, 40 second bytes per first byte in quick), random to 64; strings: single code points "
                "(all in thorough; every 5th plus boundary code points and all below U+3000 in quick), all pairs over a %d-symbol class alphabet, random to 64 chars; a case is one value, "
                "distinct by hash, non-trivial when non-empty; Python's repr is only demanded for values whose printable class is Unicode-version independent" % len(ALPHABET))
    res.assumptions = ["Python 3.11 repr / literal_eval as reference", "version independence decided by unicodedata.ucd_3_2_0 vs current table"]


def replay(w):
    bins = core.build([VARIANT])
    h = core.Harness(bins[VARIANT])
    wi = w["witness"]
    print(h.lines("repr", ["%s %s" % (wi["kind"], wi["value_hex"])]))
    return 0
