"""C17: float text conversions round-trip and match Python's.

Differential oracle: Python's repr/float()/float.hex/float.fromhex/'%.*f|e|g'. to_string is checked for round trip,
shortest length and Python's shape (the digits themselves may differ among equally short renderings).
"""
import itertools
import math
import re
import struct
from collections import Counter

from .. import core, treework as tw

VARIANT = "deflt-chk"


def bits(f):
    return struct.unpack("<Q", struct.pack("<d", f))[0]


def fb(b):
    return struct.unpack("<d", struct.pack("<Q", b & 0xFFFFFFFFFFFFFFFF))[0]


def q(s):
    return (s if isinstance(s, bytes) else s.encode("utf-8", "surrogatepass")).hex()


def doubles(res):
    thorough = res.tier == "thorough"
    rng = core.rng_for(res.seed, "c17")
    out = set()
    for e in range(-1074, 1024):
        for d in (-1, 0, 1):
            try:
                out.add(bits(math.ldexp(1.0, e)) + d)
            except OverflowError:
                pass
    for k in range(-330, 310):
        try:
            x = float("1e%d" % k)
        except OverflowError:
            continue
        for d in range(-2, 3):
            out.add(bits(x) + d)
    for k in range(0, 64):
        for d in range(-2, 3):
            out.add(bits(float(2 ** k)) + d)
            out.add(bits(float(2 ** k - 1)) + d)
    for i in list(range(0, 2000)) + [10 ** k + j for k in range(3, 23) for j in (-1, 0, 1)]:
        out.add(bits(float(i)))
        out.add(bits(i + 0.5))
        out.add(bits(i / 10))
        out.add(bits(i / 1000))
    for s in ("0.1", "0.2", "0.3", "1e16", "1e15", "9999999999999998.0", "1e-4", "1e-5", "0.0001", "0.00001", "123456789012345.6", "1234567890123456.7",
              "5e-324", "2.2250738585072014e-308", "1.7976931348623157e308", "1000000000000000.25", "0.9999999999999999", "1.0000000000000002", "4.35", "2.675", "1e22", "1e23"):
        out.add(bits(float(s)))
    for _ in range(600000 if thorough else 60000):
        out.add(rng.getrandbits(64))
    for _ in range(200000 if thorough else 20000):
        out.add(bits(rng.uniform(-1e6, 1e6)))
        out.add(bits(round(rng.uniform(-1e4, 1e4), rng.randint(0, 6))))
    out |= {bits(float("inf")), bits(float("-inf")), bits(float("nan")), bits(0.0), bits(-0.0)}
    return sorted(b & 0xFFFFFFFFFFFFFFFF for b in out)


def check_f2s(res, b, line, wit):
    f = fb(b)
    parts = line.split("\t")
    if parts[0] != "OK":
        res.add("unlisted:panic", {"bits": b, "value": repr(f), "line": line[:200]}, wit)
        return
    s, h, back, hback = parts[1], parts[2], parts[3], parts[4]
    pr = repr(f)
    if f != f:
        if s != "nan":
            res.add("unlisted:to_string-nan", {"got": s}, wit)
    elif math.isinf(f):
        if s != pr:
            res.add("unlisted:to_string-inf", {"got": s, "python": pr}, wit)
    else:
        try:
            rt = float(s)
            ok = bits(rt) == b
        except ValueError:
            ok = False
        if not ok or back != str(b):
            res.add("unlisted:to_string-not-round-tripping", {"value": pr, "got": s, "parse_str": back}, wit)
        nd = lambda t: len(re.sub(r"[^0-9]", "", t.split("e")[0]).strip("0") or "0")
        if nd(s) > nd(pr):
            res.add("unlisted:to_string-not-shortest", {"value": pr, "got": s}, wit)
        # Python's shape
        shape = lambda t: re.sub(r"[0-9]+", "9", t)
        if shape(s) != shape(pr):
            res.add("unlisted:to_string-shape", {"value": pr, "got": s}, wit)
        if s != pr:
            res.counters["to_string digits differ from repr but are equally short (allowed)"] += 1
    ph = f.hex() if f == f and not math.isinf(f) else None
    if ph is not None:
        if h != ph:
            sub = f != 0 and abs(f) < 2.2250738585072014e-308
            res.add("to_hex-subnormal-normalisation-differs" if sub else "unlisted:to_hex-differs", {"value": pr, "got": h, "python": ph}, wit)
        if hback != str(b):
            sub = f != 0 and abs(f) < 2.2250738585072014e-308
            try:
                pyback = bits(float.fromhex(h))
            except (ValueError, OverflowError):
                pyback = None
            res.add("unlisted:hex-round-trip" if not sub else "to_hex-subnormal-normalisation-differs", {"value": pr, "hex": h, "from_hex": hback, "python_fromhex_of_it": pyback}, wit)
    else:
        res.counters["hex-nonfinite"] += 1


def pyfloat(s):
    try:
        return bits(float(s))
    except (ValueError, OverflowError):
        return None


def check_s2f(res, s, line, wit):
    parts = line.split("\t")
    if parts[0] != "OK":
        res.add("unlisted:panic", {"text": ascii(s), "line": line[:200]}, wit)
        return
    if not s.isascii():
        res.counters["non-ascii string skipped (outside the property)"] += 1
        return
    for api, got, inp in (("parse_str", parts[1], s), ("parse_bytes", parts[2], s)):
        want = pyfloat(inp)
        g = None if got in ("NONE", "-") else int(got)
        if got == "-":
            continue
        if want is not None and fb(want) != fb(want):
            if g is None or fb(g) == fb(g):
                res.add("unlisted:%s-nan" % api, {"text": ascii(s), "got": got}, wit)
            continue
        if g != want:
            res.add("unlisted:%s-differs-from-float()" % api, {"text": ascii(s), "got": g, "python": want}, wit)


def _hex_inexact(txt, want_bits):
    from fractions import Fraction
    m = re.fullmatch(r"([+-]?)0[xX]([0-9a-fA-F]*)\.?([0-9a-fA-F]*)(?:[pP]([+-]?\d+))?", txt)
    if not m:
        return False
    sign, ip, fp, ex = m.groups()
    val = Fraction(int((ip + fp) or "0", 16), 16 ** len(fp)) * Fraction(2) ** int(ex or 0)
    if sign == "-":
        val = -val
    return val != Fraction(fb(want_bits))


def check_fromhex(res, s, line, wit):
    parts = line.split("\t")
    if parts[0] != "OK":
        res.add("unlisted:panic", {"text": ascii(s), "line": line[:200]}, wit)
        return
    try:
        want = bits(float.fromhex(s))
    except (ValueError, OverflowError):
        want = None
    g = None if parts[1] == "NONE" else int(parts[1])
    if g == want or (want is not None and g is not None and fb(g) != fb(g) and fb(want) != fb(want)):
        return
    core_txt = s.strip()
    if want is not None and g is None:
        m = re.fullmatch(r"[+-]?0[xX]([0-9a-fA-F]*)\.?([0-9a-fA-F]*)(?:[pP][+-]?\d+)?", core_txt)
        if s != core_txt:
            cls = "from_hex-rejects-surrounding-whitespace"
        elif m and _hex_inexact(core_txt, want):
            # the exact value of the text is not a double: Python rounds it, this crate's hex parser only takes exact values
            cls = "from_hex-rejects-values-needing-rounding"
        elif not core_txt.lower().lstrip("+-").startswith("0x") or "p" not in core_txt.lower() or re.search(r"inf|nan", core_txt.lower()):
            cls = "from_hex-requires-0x-prefix-and-exponent"
        else:
            cls = "unlisted:from_hex-rejects"
    else:
        cls = "unlisted:from_hex-differs"
    res.add(cls, {"text": ascii(s), "got": g, "python": want}, wit)


def check_fmt(res, b, p, alt, case, line, wit):
    f = fb(b)
    parts = line.split("\t")
    if parts[0] != "OK":
        res.add("unlisted:panic", {"value": repr(f), "precision": p, "line": line[:200]}, wit)
        return
    fl = "#" if alt else ""
    up = (lambda t: t.upper()) if case else (lambda t: t)
    for nm, got, conv in (("format_fixed", parts[1], "f"), ("format_exponent", parts[2], "e"), ("format_general", parts[3], "g")):
        want = up(("%%%s.%d%s" % (fl, p, conv)) % f)
        if got != want:
            if nm == "format_general" and p == 0:
                cls = "format_general-precision-0-not-treated-as-1"
            else:
                cls = "unlisted:%s-differs" % nm
            res.add(cls, {"value": repr(f), "precision": p, "alt": alt, "upper": case, "got": got, "python": want}, wit)


def _work(st, job):
    res = core.Result("C17", "", 0)
    h = st[VARIANT]
    kind, items = job
    if kind == "f2s":
        lines = h.lines("float", ["f2s %d" % b for b in items])
        for b, ln in zip(items, lines):
            res.seen("f2s%d" % b)
            check_f2s(res, b, ln, {"op": "float", "line": "f2s %d" % b})
        res.sample({"f2s": repr(fb(items[len(items) // 2]))})
    elif kind == "s2f":
        lines = h.lines("float", ["s2f " + q(s) for s in items])
        for s, ln in zip(items, lines):
            res.seen("s2f" + s)
            check_s2f(res, s, ln, {"op": "float", "line": "s2f " + q(s)})
        res.sample({"s2f": ascii(items[len(items) // 2])})
    elif kind == "fromhex":
        lines = h.lines("float", ["fromhex " + q(s) for s in items])
        for s, ln in zip(items, lines):
            res.seen("fromhex" + s)
            check_fromhex(res, s, ln, {"op": "float", "line": "fromhex " + q(s)})
    elif kind == "spec":
        # the same three renderings as their two callers produce them: FormatSpec ("fmt" op) and the printf-style CFormatSpec ("cfmt" op)
        reqs = ["%s\tfloat\t%d" % (q(sp), b) for b, sp, _ in items]
        creqs = ["t\t%s\tf:%d" % (q(ct), b) for b, _, ct in items]
        for (b, sp, ct), ln, cl, rq, crq in zip(items, h.lines("fmt", reqs), h.lines("cfmt", creqs), reqs, creqs):
            f = fb(b)
            res.seen(rq)
            res.seen(crq)
            for op, text, line, want, req in (("fmt", sp, ln, format(f, sp), rq), ("cfmt", ct, cl, ct % f, crq)):
                parts = line.split("\t")
                got = bytes.fromhex(parts[1]).decode("utf-8", "replace") if parts[0] == "OK" and len(parts) > 1 else None
                if got != want:
                    res.add("unlisted:panic" if got is None and parts[0] not in ("ERR", "PARSEERR") else "unlisted:%s-caller-differs" % op,
                            {"value": repr(f), "bits": b, "template": text, "got": got if got is not None else line[:200], "python": want}, {"op": op, "line": req})
        if items:
            res.sample({"spec": items[0][1], "cformat": items[0][2], "value": repr(fb(items[0][0]))})
    else:
        reqs = ["fmt %d %d %d %d" % it for it in items]
        lines = h.lines("float", reqs)
        for it, ln, rq in zip(items, lines, reqs):
            res.seen(rq)
            check_fmt(res, it[0], it[1], it[2], it[3], ln, {"op": "float", "line": rq})
    return res


def strings(res):
    thorough = res.tier == "thorough"
    rng = core.rng_for(res.seed, "c17s")
    alpha = "019_.eE+- infa"
    out = []
    for n in range(1, 5 if not thorough else 6):
        if n <= 4:
            out += ["".join(t) for t in itertools.product(alpha, repeat=n)]
        else:
            out += ["".join(rng.choice(alpha) for _ in range(n)) for _ in range(200000)]
    specials = ["inf", "infinity", "nan", "Inf", "INF", "iNfInItY", "NaN", "NAN", "+inf", "-inf", "+nan", "-nan", "-Infinity", "infinit", "infinityy", "nan1", "1nan", "in f"]
    out += specials
    ws = [" ", "\t", "\n", "\r", "\x0b", "\x0c"]
    for s in specials + ["1", "1.5", "1e5", ".5", "5.", "1_0", "-1"]:
        for a in ws + [""]:
            for b in ws + [""]:
                out.append(a + s + b)
    base = "12345.678e+10"
    for i in range(len(base) + 1):
        out.append(base[:i] + "_" + base[i:])
    out += ["1__0", "_1", "1_", "1e1_0", "1_e1", "1._0", "1_.0", "1 1", "0x1", "1e400", "1e-400", "-1e400", "1e", "e1", ".", "+", "-", "", " ", "١", "１", "1\x00", "\x001", "1e+", "1e-", "+-1", "--1", "1.e1", ".e1", "0_0", "00", "1_000_000.000_001e1_0",
            "1" * 400, "0." + "0" * 400 + "1", "9" * 310, "1e309", "1.7976931348623159e308", "4.9e-324", "2.4703282292062328e-324", "2.4703282292062327e-324"]
    for _ in range(300000 if thorough else 30000):
        out.append("".join(rng.choice("0123456789_.eE+- ") for _ in range(rng.randint(1, 24))))
    for _ in range(300000 if thorough else 30000):
        m = "".join(rng.choice("0123456789") for _ in range(rng.randint(1, 20)))
        out.append(rng.choice(["", "-", "+"]) + m[:rng.randint(0, len(m))] + "." + m[rng.randint(0, len(m)):] + rng.choice(["", "e%d" % rng.randint(-330, 330), "E+%d" % rng.randint(0, 20)]))
    out += halfway_strings(rng, 60000 if thorough else 6000)
    seen = set()
    return [s for s in out if not (s in seen or seen.add(s))]


def halfway_strings(rng, n):
    """Long decimal strings at and next to the midpoint between two adjacent doubles (correct rounding needs all digits)."""
    from decimal import Decimal, getcontext
    getcontext().prec = 1200
    out = []
    for _ in range(n):
        k = rng.random()
        if k < .4:
            b = rng.getrandbits(64) & 0x7FFFFFFFFFFFFFFF
        elif k < .7:
            b = bits(float(rng.randrange(1, 2 ** 53)))
        else:
            b = bits(rng.uniform(0.001, 1000.0))
        x, y = fb(b), fb(b + 1)
        if x != x or y != y or abs(y) == float("inf") or x == 0:
            continue
        mid = (Decimal(x) + Decimal(y)) / 2
        eps = Decimal(10) ** (mid.adjusted() - rng.randint(25, 60))
        for v in (mid, mid + eps, mid - eps):
            txt = format(v, "f") if -30 < v.adjusted() < 40 else format(v, "e")
            out.append(txt)
            if rng.random() < .2:
                out.append("-" + txt)
    return out


def hexstrings(res, dbl):
    rng = core.rng_for(res.seed, "c17h")
    out = []
    for b in dbl[::7]:
        f = fb(b)
        if f == f and not math.isinf(f):
            out.append(f.hex())
    out += ["0x1p0", "0x1.8p1", "0X1P-3", "-0x1.fffffffffffffp1023", "0x0.0000000000001p-1022", "0x1p-1074", "0x1p-1075", "0x1p1024", "0x.8p1", "0x8.p-3", " 0x1p0", "0x1p0 ", "\t0x1p0\n", "0x1", "1p0", "0x1.p", "0x", "inf", "nan", "-inf", "Infinity",
            "0x1.00000000000008p0", "0x1.00000000000018p0", "0x1.fffffffffffff8p0", "0x123456789abcdef.123p-4", "0x1_0p0", "0x1p+3", "0x1p 3", "+0x1p0", "0x1.8", "1.8", "0x1e5", "0x1.0p0x"]
    for _ in range(2000):
        out.append("0x%x.%xp%d" % (rng.randrange(16), rng.getrandbits(rng.choice([4, 20, 52, 60])), rng.randint(-1100, 1030)))
    # the whole fromhex grammar, every combination of optional parts (short mantissas: no rounding involved)
    for sign in ("", "+", "-"):
        for prefix in ("", "0x", "0X"):
            for ip in ("", "0", "1", "a", "10", "1F"):
                for dot in ("", "."):
                    for fp in ("", "0", "8", "aBc"):
                        if fp and not dot:
                            continue
                        for ex in ("", "p0", "p+1", "P-2", "p10", "p"):
                            body = sign + prefix + ip + dot + fp + ex
                            out.append(body)
                            if rng.random() < .15:
                                out.append(rng.choice([" ", "\t", "\n ", ""]) + body + rng.choice([" ", "\n", "\r\n", " \t"]))
    for name in ("inf", "infinity", "nan", "INF", "Infinity", "NaN", "infinit", "nan0", "in"):
        for sign in ("", "+", "-", "--"):
            out.append(sign + name)
            out.append(" " + sign + name + "\n")
    seen = set()
    return [s for s in out if not (s in seen or seen.add(s))]


def run(res):
    thorough = res.tier == "thorough"
    bins = core.build([VARIANT])
    dbl = doubles(res)
    strs = strings(res)
    rng = core.rng_for(res.seed, "c17f")
    fm = []
    mags = [b & 0x7FFFFFFFFFFFFFFF for b in dbl]
    rng.shuffle(mags)
    for b in mags[:(6000 if thorough else 1200)]:
        if fb(b) != fb(b):
            continue
        for p in (range(0, 21) if thorough else (0, 1, 2, 3, 6, 10, 17, 20)):
            for alt in (0, 1):
                fm.append((b, p, alt, rng.randrange(2)))
    # ... and through the two callers, where the sign, the specials and the '#' flag are the caller's business
    sp = []
    specials = [0x7FF8000000000000, 0xFFF8000000000000, 0x7FF0000000000001, 0xFFF4000000000000, 0x7FF0000000000000, 0xFFF0000000000000, 0, 1 << 63]
    pool = specials + [b ^ (rng.randrange(2) << 63) for b in mags[:(3000 if thorough else 400)]]
    for b in pool:
        for t in "fegFEG":
            for p in ((0, 1, 2, 6, 17) if b not in specials and not thorough else (0, 1, 2, 3, 6, 10, 17, 20)):
                sign = rng.choice(["", "+", " ", "-"])
                alt = rng.choice(["", "#"])
                sp.append((b, "%s%s.%d%s" % (sign, alt, p, t), "%%%s%s.%d%s" % (sign, alt, p, t)))
        for sign in ("", "+", " ", "-"):
            sp.append((b, sign + ".3f", "%" + sign + "f"))
            sp.append((b, sign + "e", "%" + sign + "#g"))
    jobs = [("spec", x) for x in tw.batches(sp, 4000)]
    jobs += [("f2s", x) for x in tw.batches(dbl, 4000)] + [("s2f", x) for x in tw.batches(strs, 6000)] + [("fromhex", x) for x in tw.batches(hexstrings(res, dbl), 4000)] + [("fmt", x) for x in tw.batches(fm, 8000)]
    parts = core.pmap(_work, jobs, init=tw.init_state, initargs=(bins,))
    for p in parts:
        res.merge(p)
    res.cover["doubles"] = len(dbl)
    res.cover["strings"] = len(strs)
    res.cover["format_calls"] = len(fm)
    res.cover["caller_format_calls"] = 2 * len(sp)
    res.rule = ("doubles: every binary exponent (every 3rd in quick) +-1 ulp, powers of ten and two +-2 ulp, small integers/halves/tenths, extremes, seeded random "
                "bit patterns; strings: all over {0,1,9,_,.,e,E,+,-,space,i,n,f,a} to length 4, special names in all cases with the six ASCII whitespace "
                "characters around, underscores at every position, random to 24; fixed/exponent/general formatting at precisions 0..20, both cases, "
                "alternate form, and the same through FormatSpec and the printf-style specifier with every sign option on signed values, both NaN signs and infinities; a case is one request, distinct by hash")
    res.assumptions = ["Python 3.11 float/repr/hex/% formatting as reference (IEEE-754 correctly rounded)"]


def replay(w):
    bins = core.build([VARIANT])
    h = core.Harness(bins[VARIANT])
    print(h.lines("float", [w["witness"]["line"]]))
    return 0
