"""Shared machinery for the tree-based checks (C01 C02 C04 C06 C07 C08 C09 C10 C11 C12 C13):
program sources, batching over worker processes, reject classification."""
import ast
import re
from collections import Counter

from . import core, derive, gen, pyref, workloads


# ----------------------------------------------------------------------------- program sources
def corpus_programs(seed, nfiles):
    """[(tag, text)] from the committed corpus (always) and a seeded sample of library files."""
    out = []
    for f in workloads.committed_corpus():
        t = workloads.read_text(f)
        if t is not None:
            out.append(("corpus:" + f.rsplit("/", 1)[-1], t))
    for f in workloads.sample_files(seed, nfiles):
        t = workloads.read_text(f)
        if t is not None:
            out.append(("lib:" + f, t))
    return out


def generated_programs(seed, n, pep695=False, max_depth=4, salt="gen"):
    out = []
    for i in range(n):
        rng = core.rng_for(seed, salt, i)
        g = gen.Gen(rng, max_depth=rng.choice([2, 3, 3, 4, max_depth]), pep695=pep695)
        try:
            out.append(("gen:%d:%d" % (seed, i), g.module()))
        except RecursionError:
            continue
    return out


def generated_expressions(seed, n, salt="genexpr"):
    out = []
    for i in range(n):
        rng = core.rng_for(seed, salt, i)
        g = gen.Gen(rng, max_depth=rng.choice([2, 3, 4, 5]))
        try:
            out.append(("genexpr:%d:%d" % (seed, i), g.expr(0, gen.NAMED if rng.random() < .1 else gen.TEST)))
        except RecursionError:
            continue
    return out


def batches(items, size):
    return [items[i:i + size] for i in range(0, len(items), size)]


# ----------------------------------------------------------------------------- workers
class State:
    def __init__(self, bins):
        self.h = {v: core.Harness(b) for v, b in bins.items()}

    def __getitem__(self, v):
        return self.h[v]


def init_state(bins):
    return State(bins)


def new_partial(res_like):
    return core.Result(res_like[0], res_like[1], res_like[2])


# ----------------------------------------------------------------------------- C01 quantifier exclusions
def excluded_reason(tree, text):
    if pyref.has_duplicate_names(tree):
        return "duplicate-parameter-or-keyword"
    if pyref.has_tab_after_space_indent(text):
        return "tab-after-space-indent"
    if pyref.version_dependent_identifiers(tree):
        return "unicode-version-dependent-identifier"
    return None


# ----------------------------------------------------------------------------- reject classification
def _stmts_by_start(pt):
    out = []
    for n, parent, field in pyref.walk(pt):
        if n["_t"] in pyref.STMT_KINDS and n.get("_r"):
            out.append(n)
    return out


_TRIPLE_IN_FIELD = re.compile(rb"\{[^{}]*('''|\"\"\")")


def logical_line_end(text, b, start, stmt_end):
    """Byte offset of the end of the logical line that contains byte offset `start` (CPython tokenize decides)."""
    m = re.compile(rb"[\r\n]").search(b, stmt_end)
    fallback = m.start() if m else len(b)
    if "\r" in text:
        # tokenize an LF-only copy and map offsets back and forth (CRLF is one line break)
        norm, back = [], []   # back[i] = original byte offset of norm char i
        o = i = 0
        while i < len(text):
            ch = text[i]
            back.append(o)
            if ch == "\r":
                norm.append("\n")
                if text[i + 1:i + 2] == "\n":
                    i += 1
                    o += 1
                o += 1
            else:
                norm.append(ch)
                o += len(ch.encode("utf-8", "surrogatepass"))
            i += 1
        back.append(o)
        ntext = "".join(norm)
        nb = ntext.encode("utf-8", "surrogatepass")
        # original byte offset -> norm byte offset
        import bisect
        nbyte = [0]
        for ch in norm:
            nbyte.append(nbyte[-1] + len(ch.encode("utf-8", "surrogatepass")))
        k = bisect.bisect_right(back, start) - 1
        k2 = bisect.bisect_right(back, stmt_end) - 1
        end_n = logical_line_end(ntext, nb, nbyte[max(k, 0)], nbyte[max(k2, 0)])
        j = bisect.bisect_left(nbyte, end_n)
        return back[min(j, len(back) - 1)]
    toks = derive.tokens(text)
    if not toks:
        return fallback
    import token as T
    lines = text.split("\n")
    line_byte_start = [0]
    for ln in lines:
        line_byte_start.append(line_byte_start[-1] + len(ln.encode("utf-8", "surrogatepass")) + 1)
    for t in toks:
        if t.type == T.NEWLINE or t.type == T.ENDMARKER:
            row, col = t.start
            if row - 1 < len(lines):
                off = line_byte_start[row - 1] + len(lines[row - 1][:col].encode("utf-8", "surrogatepass"))
                if off >= start:
                    return min(off, len(b))
    return fallback


def classify_reject(text, mode, rep, pt):
    """The parser rejected a text the reference accepts. Returns a known-finding class or `unlisted:rust-rejects`."""
    b = text.encode("utf-8", "surrogatepass")
    off = rep.get("offset", 0)
    err = rep.get("err", "")
    # a reference quirk: backslash + CRLF as the very end of the text is accepted there (backslash + LF / CR is not)
    if text.endswith("\\\r\n") and err == "Lexical(Eof)" and off == len(b):
        return "continuation-before-final-crlf-at-end-of-input-rejected"
    # f-string replacement field holding a triple-quoted string that contains the other quote
    if "FStringError" in err or "StringError" in err or err.startswith("Lexical(Eof") or "UnterminatedString" in err:
        for n, parent, field in pyref.walk(pt):
            r = n.get("_r")
            if n["_t"] == "JoinedStr" and r and r[0] <= off <= r[1] + 1:
                seg = b[r[0]:r[1]]
                if _TRIPLE_IN_FIELD.search(seg):
                    return "fstring-field-triple-quoted-string-rejected"
    # a starred index whose operand is not a bitwise-or level expression
    for n, parent, field in pyref.walk(pt):
        if n["_t"] == "Subscript":
            sl = n["slice"]
            elts = sl["elts"] if pyref.is_node(sl) and sl["_t"] == "Tuple" else [sl]
            for e in elts:
                if pyref.is_node(e) and e["_t"] == "Starred" and e.get("_r") and e["_r"][0] <= off <= e["_r"][1]:
                    v = e["value"]
                    if v["_t"] in ("BoolOp", "Compare", "IfExp", "Lambda") or (v["_t"] == "UnaryOp" and v["op"] == "Not"):
                        if pyref.blank_or_comments(b[e["_r"][0] + 1:v["_r"][0]]):
                            return "subscript-starred-index-operand-above-bitwise-or-rejected"
    # ... the same inside an f-string replacement field (errors there are reported at the field, not at the token)
    if "FStringError(InvalidExpression" in err:
        for n, parent, field in pyref.walk(pt):
            r = n.get("_r")
            if n["_t"] == "JoinedStr" and r and r[0] <= off <= r[1] + 1:
                for m, _, _ in pyref.walk(n):
                    if m["_t"] == "Subscript":
                        sl = m["slice"]
                        for e in (sl["elts"] if pyref.is_node(sl) and sl["_t"] == "Tuple" else [sl]):
                            if pyref.is_node(e) and e["_t"] == "Starred":
                                v = e["value"]
                                if v["_t"] in ("BoolOp", "Compare", "IfExp", "Lambda") or (v["_t"] == "UnaryOp" and v["op"] == "Not"):
                                    return "subscript-starred-index-operand-above-bitwise-or-rejected"
    # soft keyword heuristics: a logical line that starts with match/case used as a name and holds a colon
    cand = None
    for s in _stmts_by_start(pt):
        r = s["_r"]
        if r[0] <= off and (cand is None or r[0] >= cand["_r"][0]):
            # innermost / latest statement starting at or before the error
            line_start = max(b.rfind(b"\n", 0, r[0]), b.rfind(b"\r", 0, r[0])) + 1
            lead = b[line_start:r[0]]
            if line_start == 0 and lead.startswith(b"\xef\xbb\xbf"):
                lead = lead[3:]   # a byte-order mark is layout
            if lead.strip(b" \t\x0c") == b"":
                cand = s
    if cand is not None:
        r = cand["_r"]
        end = logical_line_end(text, b, r[0], r[1])
        seg = b[r[0]:end]   # the statement and what follows it on its logical line
        m = re.match(rb"(match|case)(?![A-Za-z0-9_\x80-\xff])", seg)
        if m and cand["_t"] != "Match" and b":" in seg:
            return "softkw-match-case-name-at-line-start-with-colon"
    return "unlisted:rust-rejects"


# ----------------------------------------------------------------------------- coverage helpers
def node_kinds(pt, counter):
    for n, parent, field in pyref.walk(pt):
        counter[n["_t"]] += 1


def softkw_placements(pt, counter):
    for n, parent, field in pyref.walk(pt):
        t = n["_t"]
        for f in ("id", "attr", "arg", "name", "asname"):
            v = n.get(f)
            if v in derive.SOFT:
                counter["%s as %s.%s in %s.%s" % (v, t, f, parent["_t"] if parent else "-", field)] += 1


def production_names():
    """{action index: production text} read from the generated parser of the current working tree."""
    src = open(core.REPO + "/parser/src/python.rs", encoding="utf-8").read()
    i = src.index("pub(crate) fn __reduce<")
    j = src.index('_ => panic!("invalid action code', i)
    fn_comment = dict(re.findall(r"fn __reduce(\d+)<[^{]*\{\s*// ([^\n]*)", src))
    out = {}
    arms = list(re.finditer(r"\n            (\d+) => \{", src[i:j]))
    for k, m in enumerate(arms):
        idx = int(m.group(1))
        body = src[i + m.end(): i + (arms[k + 1].start() if k + 1 < len(arms) else j - i)]
        c = re.search(r"// ([^\n]*=> ActionFn\(\d+\);)", body)
        if c:
            out[idx] = c.group(1)
        else:
            c2 = re.search(r"__reduce(\d+)\(", body)
            out[idx] = fn_comment.get(c2.group(1), "?") if c2 else "?"
    return out
