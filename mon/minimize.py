"""ddmin-style witness minimiser (dev / reporting helper)."""


def ddmin(text, pred, max_steps=4000):
    """Smallest text (by chunk deletion) for which pred(text) still holds."""
    assert pred(text)
    n = 2
    steps = 0
    while len(text) >= 2 and steps < max_steps:
        chunk = max(1, len(text) // n)
        reduced = False
        i = 0
        while i < len(text):
            cand = text[:i] + text[i + chunk:]
            steps += 1
            if cand and pred(cand):
                text = cand
                n = max(n - 1, 2)
                reduced = True
            else:
                i += chunk
            if steps >= max_steps:
                break
        if not reduced:
            if chunk == 1:
                break
            n = min(n * 2, len(text))
    return text


def minimize(text, pred, max_steps=6000):
    """Line-level pass, then character-level pass."""
    lines = text.split("\n")

    def lp(ls):
        return pred("\n".join(ls))
    if len(lines) > 2:
        n = 2
        steps = 0
        while len(lines) >= 2 and steps < max_steps:
            chunk = max(1, len(lines) // n)
            red = False
            i = 0
            while i < len(lines):
                cand = lines[:i] + lines[i + chunk:]
                steps += 1
                if cand and lp(cand):
                    lines = cand
                    red = True
                else:
                    i += chunk
            if not red:
                if chunk == 1:
                    break
                n = min(n * 2, len(lines))
        text = "\n".join(lines)
    return ddmin(text, pred, max_steps)
