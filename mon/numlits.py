"""Numeric literals at the places where an implementation shortcut goes wrong: every digit count in every radix with
every leading digit, neighbours of powers of two, rounding boundaries of the double format, the overflow threshold,
very long digit runs (integer, float and imaginary spellings). Shared by C05, C06 and C10."""
import sys


def boundary_literals(rng, thorough=False):
    out = []
    add = out.append
    for prefix, alphabet in (("", "0123456789"), ("0x", "0123456789abcdef"), ("0o", "01234567"), ("0b", "01"), ("0X", "0123456789ABCDEF")):
        for n in range(1, 71):
            for lead in alphabet[1:]:
                tails = [alphabet[0] * (n - 1), alphabet[-1] * (n - 1)]
                if thorough or n in (16, 19, 20, 21, 22, 32, 33, 43, 64, 65):
                    tails.append("".join(rng.choice(alphabet) for _ in range(n - 1)))
                for tail in tails:
                    add(prefix + lead + tail)
                    if prefix == "" and lead in "19":
                        add(lead + tail + "j")
    for k in (31, 32, 53, 63, 64, 65, 127, 128, 1000, 1023, 1024, 4000):
        for d in (-1, 0, 1):
            v = 2 ** k + d
            out += [str(v), hex(v), bin(v), oct(v), str(v) + "j", str(v) + ".0", str(v) + "e0"]
    dmax = int(sys.float_info.max)
    half = 2 ** 970
    edge = [dmax + d for d in (-1, 0, 1, 2, half - 1, half, half + 1, 2 * half - 1, 2 * half, 2 * half + 1)] + [10 ** 308, 10 ** 309 - 1, 10 ** 309, 10 ** 400]
    for v in edge:
        out += [str(v), str(v) + "j", str(v) + "J", str(v) + ".0", str(v) + "e0j", str(v) + ".j"]
    for n in (300, 308, 309, 310, 400, 1000):
        out += ["9" * n, "9" * n + "j", "1" + "0" * n + "j", "9" * n + ".0", "0." + "0" * n + "1", "0." + "0" * n + "1j", "1e%d" % n, "1e%dj" % n, "1e-%d" % n]
    seen = set()
    return [x for x in out if not (x in seen or seen.add(x))]


def as_programs(lits, per=200):
    """The literals as elements of list displays, `per` to a program (valid Python: every literal above is)."""
    progs = []
    for i in range(0, len(lits), per):
        progs.append("x = [\n" + ",\n".join(lits[i:i + per]) + ",\n]\n")
    return progs
