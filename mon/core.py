"""Core of the runtime-monitoring orchestrator: builds, harness processes,
observations, known findings, evidence, verdicts.

Stdlib only. The reference oracle is the running CPython (must be 3.11).
"""
import fcntl
import hashlib
import json
import os
import random
import shutil
import subprocess
import sys
import time
import traceback
from collections import Counter, defaultdict

# deeply nested (generated) programs produce deeply nested dumps: the orchestrator's own JSON decoding and tree walks
# must not be what gives up first
sys.setrecursionlimit(max(sys.getrecursionlimit(), 30000))
try:
    import resource as _resource
    _soft, _hard = _resource.getrlimit(_resource.RLIMIT_STACK)
    _want = 1 << 30
    if _soft != _resource.RLIM_INFINITY and _soft < _want:
        _resource.setrlimit(_resource.RLIMIT_STACK, (_want if _hard == _resource.RLIM_INFINITY else min(_want, _hard), _hard))
except (ImportError, ValueError, OSError):
    pass

ROOT = os.path.dirname(os.path.dirname(os.path.abspath(__file__)))
REPO = os.environ.get("VERIF_REPO", "/repo")
BUILD = os.path.join(ROOT, "build")
HARNESS = os.path.join(ROOT, "harness")
if REPO != "/repo":
    # development aid (seeded-change runs): build against a scratch copy / worktree of the repository without touching
    # /repo. The harness manifest names /repo, so a private copy of the harness with rewritten path dependencies is used.
    _tag = hashlib.sha1(REPO.encode()).hexdigest()[:10]
    BUILD = os.path.join(ROOT, "build", "alt-" + _tag)
    EVIDENCE = os.path.join(BUILD, "evidence")  # a run against a scratch copy never rewrites the committed evidence
    REPLAY = os.path.join(BUILD, "replay")
    HARNESS = os.path.join(BUILD, "harness")
    os.makedirs(BUILD, exist_ok=True)
    for _d, _dn, _fn in os.walk(os.path.join(ROOT, "harness")):
        if "target" in _d.split(os.sep):
            continue
        for _f in _fn:
            if _f == "Cargo.lock":
                continue
            _src = os.path.join(_d, _f)
            _dst = os.path.join(HARNESS, os.path.relpath(_src, os.path.join(ROOT, "harness")))
            _data = open(_src, "rb").read()
            if _f == "Cargo.toml":
                _data = _data.replace(b'path = "/repo/', ('path = "%s/' % REPO.rstrip("/")).encode())
            os.makedirs(os.path.dirname(_dst), exist_ok=True)
            if not os.path.exists(_dst) or open(_dst, "rb").read() != _data:
                open(_dst, "wb").write(_data)
if REPO == "/repo":
    EVIDENCE = os.path.join(ROOT, "evidence")
    REPLAY = os.path.join(ROOT, "replay")
COVERAGE = bool(os.environ.get("VERIF_COVERAGE")) and REPO == "/repo"
if COVERAGE:
    # development aid (tools_coverage.py): the same checks against a source-coverage build of the harness; its builds,
    # evidence and replay files live under build/cov so that such a run never rewrites what the registered checks wrote.
    BUILD = os.path.join(ROOT, "build", "cov")
    EVIDENCE = os.path.join(BUILD, "evidence")
    REPLAY = os.path.join(BUILD, "replay")
    os.makedirs(os.path.join(BUILD, "prof"), exist_ok=True)
    os.environ["LLVM_PROFILE_FILE"] = os.path.join(BUILD, "prof", "vh-%p-%8m.profraw")
CALL_TIMEOUT = int(os.environ.get("VERIF_CALL_TIMEOUT", "900"))
RUN_ID = os.environ.setdefault("VERIF_RUN_ID", "%d-%d" % (os.getpid(), int(time.time())))
NCPU = int(os.environ.get("VERIF_JOBS", str(min(16, os.cpu_count() or 4))))

EXIT_OK, EXIT_VIOLATION, EXIT_INCONCLUSIVE = 0, 1, 3

# variant -> (cargo feature, cargo profile)
VARIANTS = {
    "full": ("full", "release"),
    "full-chk": ("full", "chk"),
    "deflt": ("deflt", "release"),
    "deflt-chk": ("deflt", "chk"),
    "fulllex": ("fulllex", "release"),
    "numbig": ("numbig", "release"),
}
RUSTFLAGS = "--cfg rustpython_parser_verif --check-cfg=cfg(rustpython_parser_verif)"


class Inconclusive(Exception):
    pass


def require_reference():
    if sys.version_info[:2] != (3, 11):
        raise Inconclusive("reference oracle must be CPython 3.11, found %s" % sys.version.split()[0])


# --------------------------------------------------------------------------- builds
def _cargo_env(target_dir):
    env = dict(os.environ)
    env["CARGO_NET_OFFLINE"] = "true"
    env["CARGO_TARGET_DIR"] = target_dir
    env["RUSTFLAGS"] = RUSTFLAGS + (" -Cinstrument-coverage" if COVERAGE else "")
    if COVERAGE:
        # build scripts and proc macros are instrumented too and run with the package directory (inside /repo) as their
        # working directory: give their profiles a place of their own
        env["LLVM_PROFILE_FILE"] = os.path.join(BUILD, "prof-build", "b-%p-%8m.profraw")
    env.pop("RUSTC_WRAPPER", None)
    return env


def build(variants, quiet=True):
    """(Re)build the harness variants from /repo's working tree. Returns {variant: binary}."""
    os.makedirs(BUILD, exist_ok=True)
    lockfile = os.path.join(HARNESS, "Cargo.lock")
    out = {}
    # group variants by target dir (feature) so release and chk share dependency builds
    for v in variants:
        feat, prof = VARIANTS[v]
        tdir = os.path.join(BUILD, feat)
        os.makedirs(tdir, exist_ok=True)
        with open(os.path.join(BUILD, ".lock-" + feat), "w") as lk:
            fcntl.flock(lk, fcntl.LOCK_EX)
            src_lock = os.path.join(REPO, "Cargo.lock")
            shutil.copyfile(src_lock if os.path.exists(src_lock) else "/repo/Cargo.lock", lockfile)
            cmd = ["cargo"] + (["+nightly"] if COVERAGE else []) + ["build", "--offline", "--profile", prof, "--no-default-features", "--features", feat]
            t0 = time.time()
            p = subprocess.run(cmd, cwd=HARNESS, env=_cargo_env(tdir), capture_output=True, text=True)
            if p.returncode != 0:
                sys.stderr.write(p.stderr[-6000:])
                raise Inconclusive("cargo build failed for variant %s" % v)
            if not quiet:
                print("built %s in %.1fs" % (v, time.time() - t0))
        out[v] = os.path.join(tdir, prof, "vh")
    return out


def build_parallel(variants):
    """Build several variants concurrently (distinct target dirs build in parallel)."""
    import concurrent.futures as cf
    by_feat = defaultdict(list)
    for v in variants:
        by_feat[VARIANTS[v][0]].append(v)
    res = {}
    # Cargo.lock is shared: copy once up-front, builds only read it
    with cf.ThreadPoolExecutor(max_workers=len(by_feat)) as ex:
        futs = [ex.submit(build, vs) for vs in by_feat.values()]
        for f in futs:
            res.update(f.result())
    return res


def die_with_parent():
    """preexec_fn for every helper process: killed by the kernel when the process that started it dies (so a looping
    harness, or a valgrind / Miri run of one, never outlives an orchestrator that is killed from outside)."""
    try:
        import ctypes
        ctypes.CDLL("libc.so.6", use_errno=True).prctl(1, 9, 0, 0, 0)
    except Exception:
        pass


# --------------------------------------------------------------------------- harness
class HarnessDied(Exception):
    def __init__(self, rc, op, stderr=""):
        super().__init__("harness died rc=%s during %s" % (rc, op))
        self.rc = rc
        self.op = op
        self.stderr = stderr

    def __reduce__(self):
        # must survive the trip from a pool worker to the parent (the default pickling re-calls __init__ with the
        # message only, which fails in the parent's result thread and hangs the pool)
        return (HarnessDied, (self.rc, self.op, self.stderr))


class OpPanicked(Exception):
    """A panic escaped a harness op (the op guards every library call it expects might panic)."""

    def __init__(self, op, args, msg, loc, payload=b""):
        super().__init__("panic escaped op %s: %s at %s" % (op, msg, loc))
        self.op, self.opargs, self.msg, self.loc, self.payload = op, args, msg, loc, payload

    def __reduce__(self):
        return (OpPanicked, (self.op, self.opargs, self.msg, self.loc, self.payload))

    def in_library(self):
        # the harness crate's own files are reported relative to it (src/...); library files by crate path
        return not self.loc.startswith("src/")


class Harness:
    def __init__(self, binary, stack_kb=None, wrapper=None):
        self.binary = binary
        self.stack_kb = stack_kb
        self.wrapper = wrapper or []
        self.p = None
        self.start()

    def start(self):
        kb = self.stack_kb

        def pre():
            # a harness that loops for ever (that is what some checks are looking for) must not outlive an orchestrator that
            # is killed from outside: ask the kernel to kill the child when its parent dies (PR_SET_PDEATHSIG = 1, SIGKILL)
            if not COVERAGE:   # (a coverage build writes its profile when it exits by itself)
                die_with_parent()
            if kb:
                import resource
                resource.setrlimit(resource.RLIMIT_STACK, (kb * 1024, kb * 1024))
        self.p = subprocess.Popen(self.wrapper + [self.binary], stdin=subprocess.PIPE, stdout=subprocess.PIPE,
                                  stderr=subprocess.PIPE, preexec_fn=pre)

    def close(self):
        if self.p and self.p.poll() is None:
            try:
                self.p.stdin.close()
                self.p.wait(timeout=5)
            except Exception:
                self.p.kill()
        self.p = None

    def call(self, op, args=(), payload=b""):
        if isinstance(payload, str):
            payload = payload.encode("utf-8", "surrogatepass")
        if self.p is None or self.p.poll() is not None:
            self.start()
        hdr = " ".join([op] + [str(a) for a in args] + [str(len(payload))]) + "\n"
        flag = os.path.join(BUILD, "tmp", "watchdog-" + RUN_ID)
        if not getattr(self, "ignore_watchdog_flag", False) and os.path.exists(flag):
            # another worker of this run already met a call that never answered: do not queue up behind more of them
            raise HarnessDied("watchdog", op, "skipped: the watchdog already fired in this run")
        try:
            self.p.stdin.write(hdr.encode() + payload)
            self.p.stdin.flush()
            # generous wall-clock watchdog (a batch normally answers within seconds): its firing is *inconclusive*
            import select
            limit = getattr(self, "call_timeout", None) or CALL_TIMEOUT
            if not select.select([self.p.stdout], [], [], limit)[0]:
                self.p.kill()
                self.p.wait()
                self.p = None
                try:
                    os.makedirs(os.path.dirname(flag), exist_ok=True)
                    open(flag, "w").close()
                except OSError:
                    pass
                raise HarnessDied("watchdog", op, "no reply within %d s (wall-clock watchdog; a hang in the library or an overloaded machine)" % limit)
            line = self.p.stdout.readline()
            if not line:
                raise BrokenPipeError
            n = int(line)
            data = self.p.stdout.read(n)
            if len(data) != n:
                raise BrokenPipeError
            if data.startswith(b'{"op_panicked":'):
                info = json.loads(data)["op_panicked"]
                raise OpPanicked(op, [str(a) for a in args], info.get("panic", "?"), info.get("loc", "?"), payload[:4000])
            return data
        except (BrokenPipeError, ValueError, OSError):
            rc = self.p.wait()
            err = b""
            try:
                err = self.p.stderr.read()[-2000:]
            except Exception:
                pass
            self.p = None
            raise HarnessDied(rc, op, err.decode("utf-8", "replace"))

    def json(self, op, args=(), payload=b""):
        return json.loads(self.call(op, args, payload))

    def lines(self, op, lines):
        data = self.call(op, (), ("\n".join(lines) + "\n").encode())
        out = data.decode("utf-8", "replace").split("\n")
        if out and out[-1] == "":
            out.pop()
        return out


# --------------------------------------------------------------------------- observations / findings
class Obs:
    """One observed deviation. `cls` names the class (a known-finding id or an
    `unlisted:*` label), `witness` holds what is needed to replay it."""
    __slots__ = ("prop", "cls", "detail", "witness")

    def __init__(self, prop, cls, detail, witness):
        self.prop, self.cls, self.detail, self.witness = prop, cls, detail, witness

    def to_json(self):
        return {"property": self.prop, "class": self.cls, "detail": self.detail, "witness": self.witness}


def load_findings():
    path = os.path.join(ROOT, "known_findings.json")
    with open(path) as f:
        data = json.load(f)
    known = {}
    for e in data["findings"]:
        known[(e["property"], e["id"])] = e
    return known


def hx(s):
    if isinstance(s, str):
        s = s.encode("utf-8", "surrogatepass")
    return s.hex()


class Result:
    """Accumulates what a check observed."""

    def __init__(self, prop, tier, seed):
        self.prop, self.tier, self.seed = prop, tier, seed
        self.evaluations = 0
        self.distinct = set()
        self.distinct_extra = 0   # distinct cases counted by the harness itself (e.g. in-process fuzz loops)
        self.samples = []
        self.cover = {}
        self.obs = []
        self.counters = Counter()
        self.inconclusive = []
        self.rule = ""
        self.assumptions = []
        self.t0 = time.time()
        self.exhaustive = None

    def seen(self, key, nontrivial=True):
        self.evaluations += 1
        if nontrivial:
            if not isinstance(key, (bytes, str)):
                key = repr(key)
            if isinstance(key, str):
                key = key.encode("utf-8", "surrogatepass")
            self.distinct.add(hashlib.blake2b(key, digest_size=8).digest())

    def sample(self, s, limit=6):
        if len(self.samples) < limit:
            self.samples.append(s)

    def add(self, cls, detail, witness):
        self.obs.append(Obs(self.prop, cls, detail, witness))

    def merge(self, other):
        self.evaluations += other.evaluations
        self.distinct |= other.distinct
        self.distinct_extra += other.distinct_extra
        for s in other.samples:
            self.sample(s)
        self.obs.extend(other.obs)
        self.counters.update(other.counters)
        self.inconclusive.extend(other.inconclusive)
        for k, v in other.cover.items():
            if isinstance(v, Counter):
                self.cover.setdefault(k, Counter()).update(v)
            elif isinstance(v, set):
                self.cover.setdefault(k, set()).update(v)
            elif isinstance(v, (int, float)):
                self.cover[k] = max(self.cover.get(k, v), v) if k.startswith("max_") else self.cover.get(k, 0) + v
            else:
                self.cover[k] = v


def _jsonable(v):
    if isinstance(v, Counter):
        return dict(sorted(v.items(), key=lambda kv: (-kv[1], str(kv[0])))[:400])
    if isinstance(v, set):
        return sorted(v, key=str)[:600]
    if isinstance(v, dict):
        return {str(k): _jsonable(x) for k, x in v.items()}
    if isinstance(v, (list, tuple)):
        return [_jsonable(x) for x in v]
    if isinstance(v, bytes):
        return v.decode("utf-8", "replace")
    if v is None or isinstance(v, (bool, str)):
        return v
    if isinstance(v, int):
        return v if v.bit_length() < 4000 else "<int of %d bits>" % v.bit_length()
    if isinstance(v, float):
        return v if v == v and abs(v) != float("inf") else repr(v)
    return repr(v)   # Ellipsis, complex, ... : anything JSON has no spelling for


def finish(res, level="exploration", min_distinct=2):
    """Print verdict lines, write evidence and replay files, return exit code."""
    for _f in ("watchdog-", "hang-confirmed-"):
        try:
            os.unlink(os.path.join(BUILD, "tmp", _f + RUN_ID))
        except OSError:
            pass
    os.makedirs(EVIDENCE, exist_ok=True)
    os.makedirs(REPLAY, exist_ok=True)
    known = load_findings()
    by_cls = defaultdict(list)
    for o in res.obs:
        by_cls[o.cls].append(o)
    violations = 0
    kf_lines = []
    for cls, items in sorted(by_cls.items()):
        e = known.get((res.prop, cls))
        if e is not None and e.get("status") == "known":
            w = items[0].witness
            kf_lines.append("KNOWN-FINDING: property=%s %s: %s (%d sites, e.g. %s)" % (
                res.prop, cls, e["description"], len(items), json.dumps(_jsonable(items[0].detail))[:160]))
            continue
        # unlisted class, or a class recorded as fixed that has come back
        for o in items[:5]:
            h = hashlib.blake2b(json.dumps(_jsonable(o.to_json()), sort_keys=True).encode(), digest_size=6).hexdigest()
            path = os.path.join(REPLAY, "%s-%s.json" % (res.prop, h))
            with open(path, "w") as f:
                json.dump(_jsonable(o.to_json()), f, indent=1)
            print("VIOLATION property=%s replay=%s" % (res.prop, path))
            print("  class=%s detail=%s" % (cls, json.dumps(_jsonable(o.detail))[:300]))
        violations += len(items)
    for l in kf_lines:
        print(l)
    cov = {k: _jsonable(v) for k, v in res.cover.items()}
    cov.update({
        "evaluations": res.evaluations,
        "distinct_nontrivial": len(res.distinct) + res.distinct_extra,
        "rule": res.rule,
        "samples": _jsonable(res.samples) or ["<none>"],
        "counters": _jsonable(res.counters),
        "known_finding_sites": {c: len(v) for c, v in by_cls.items() if (res.prop, c) in known and known[(res.prop, c)].get("status") == "known"},
        "inconclusive": res.inconclusive[:20],
        "reference": "CPython %s" % sys.version.split()[0],
    })
    if res.exhaustive is not None:
        cov["exhaustive"] = res.exhaustive
    ev = {
        "property_id": res.prop, "tier": res.tier, "seed": res.seed, "level": level,
        "coverage": cov, "assumptions": res.assumptions, "wall_s": round(time.time() - res.t0, 2),
        "violations": violations,
    }
    with open(os.path.join(EVIDENCE, res.prop + ".json"), "w") as f:
        json.dump(ev, f, indent=1, sort_keys=True)
    print("%s tier=%s seed=%d evaluations=%d distinct=%d violations=%d known_classes=%d wall=%.1fs" % (
        res.prop, res.tier, res.seed, res.evaluations, len(res.distinct) + res.distinct_extra, violations, len(kf_lines), time.time() - res.t0))
    if violations:
        return EXIT_VIOLATION
    if res.inconclusive or res.evaluations == 0 or len(res.distinct) + res.distinct_extra < min_distinct:
        print("INCONCLUSIVE property=%s %s" % (res.prop, "; ".join(map(str, res.inconclusive[:5])) or "nothing observed"))
        return EXIT_INCONCLUSIVE
    return EXIT_OK


# --------------------------------------------------------------------------- parallel map
def _worker_init(fn_init, args):
    global _WSTATE
    # a worker (and, through it, its harness processes) must not outlive an orchestrator that is killed from outside
    die_with_parent()
    _WSTATE = fn_init(*args) if fn_init else None


def pmap(fn, items, init=None, initargs=(), jobs=None, chunksize=1):
    """Map fn(state, item) over items in worker processes; each worker keeps its
    own state (harness processes). Returns results in order."""
    import multiprocessing as mp
    jobs = jobs or NCPU
    items = list(items)
    if not items:
        return []
    if jobs <= 1 or len(items) == 1:
        st = init(*initargs) if init else None
        return [fn(st, it) for it in items]
    ctx = mp.get_context("fork")
    with ctx.Pool(jobs, initializer=_worker_init, initargs=(init, initargs)) as pool:
        outcomes = pool.map(_Call(fn), items, chunksize)
    failed = [o[1] for o in outcomes if o[0] == "err"]
    good = [o[1] for o in outcomes if o[0] == "ok"]
    if failed:
        # what the other items observed is kept (a violation seen elsewhere stays a violation)
        exc = failed[0]
        exc.partial = good
        raise exc
    return good


class _Call:
    def __init__(self, fn):
        self.fn = fn

    def __call__(self, item):
        try:
            return ("ok", self.fn(_WSTATE, item))
        except (HarnessDied, OpPanicked) as e:
            return ("err", e)
        except Exception:
            return ("err", RuntimeError("worker failed on item %r:\n%s" % (str(item)[:200], traceback.format_exc())))


def rng_for(seed, *salt):
    h = hashlib.blake2b(repr((seed,) + salt).encode(), digest_size=8).digest()
    return random.Random(int.from_bytes(h, "big"))


def tier_seed():
    tier = os.environ.get("VERIF_TIER", "quick")
    seed = int(os.environ.get("VERIF_SEED", "0") or 0)
    return tier, seed
