"""PEP 695 reference by erasure.

CPython 3.11 does not accept type parameter lists or `type` statements. The workload takes a program CPython
accepts, inserts the PEP 695 pieces itself and knows the byte span of everything it inserted; the expected tree is
CPython's tree of the erased program with the `type_params` lists / `TypeAlias` nodes assembled from the inserted
pieces (bounds and alias values are parsed by CPython in eval mode).
"""
import re

from . import core, gen, pyref

_HEAD = re.compile(rb"(?:async[ \t]+)?(?:def|class)[ \t]+([^\s(:\[]+)")
TP_NAMES = ["T", "K", "V", "Ts", "P", "match", "type", "case", "Ü", "T1", "_T"]
SIMPLE_BOUNDS = ["int", "str | None", "(int, str)", "list[int]", "Callable[[int], str]", "'fwd'", "a.b", "x if y else z", "lambda: 0", "(yield)" if False else "f(x)", "dict[str, list[T]]"]


def _bound(rng):
    if rng.random() < .6:
        return rng.choice(SIMPLE_BOUNDS)
    for _ in range(5):
        g = gen.Gen(rng, max_depth=2)
        e = g.expr(0, gen.TEST)
        if "\n" in e:
            continue
        try:
            pyref.py_parse(e, "eval")
            return e
        except pyref.PyReject:
            continue
    return "int"


def make_type_params(rng):
    """Returns (text, [(kind, name, rel_start, rel_end, bound_text|None, bound_rel_start)])."""
    names = list(TP_NAMES)
    rng.shuffle(names)
    parts = []
    text = "["
    n = rng.randint(1, 3)
    for i in range(n):
        if i:
            text += rng.choice([", ", ",", " , "])
        k = rng.randrange(5)
        start = len(text.encode())
        nm = names[i]
        if k < 3:
            piece = nm
            bound = None
            bstart = None
            if rng.random() < .45:
                bound = _bound(rng)
                sep = rng.choice([": ", ":", " : "])
                bstart = start + len((nm + sep).encode())
                piece = nm + sep + bound
            text += piece
            parts.append(("TypeVar", nm, start, len(text.encode()), bound, bstart))
        elif k == 3:
            text += "*" + nm
            parts.append(("TypeVarTuple", nm, start, len(text.encode()), None, None))
        else:
            text += "**" + nm
            parts.append(("ParamSpec", nm, start, len(text.encode()), None, None))
    if rng.random() < .15:
        text += ","
    text += "]"
    return text, parts


def _tp_nodes(parts, abs_start):
    out = []
    for kind, nm, s, e, bound, bs in parts:
        n = {"_t": kind, "_r": [abs_start + s, abs_start + e], "name": nm}
        if kind == "TypeVar":
            if bound is None:
                n["bound"] = None
            else:
                bt = pyref.py_tree(bound, "eval")["body"]
                n["bound"] = pyref.shift(bt, abs_start + bs)
        out.append(n)
    return out


def build(index):
    """Deterministic (text, expected canonical tree, info) for one index, or None when no site was available."""
    rng = core.rng_for(index, "pep695")
    for attempt in range(20):
        g = gen.Gen(rng, max_depth=rng.choice([2, 3, 4]), pep695=False)
        base = g.module(rng.randint(1, 4))
        if rng.random() < .5:
            base = rng.choice(["X = int\n", "Alias = list[T]\n", "def f(x): pass\n", "class C(B): x = 1\n", "async def g(): pass\n", "class D: pass\n"]) + base
        if "\r" in base:
            continue
        try:
            tree, L = pyref.py_parse(base, "exec")
        except pyref.PyReject:
            continue
        import ast
        from . import treework
        if treework.excluded_reason(tree, base):
            continue
        pt = pyref.pnode(tree, L)
        b = base.encode()
        sites = []
        for n, parent, field in pyref.walk(pt):
            t = n["_t"]
            if t in ("FunctionDef", "AsyncFunctionDef", "ClassDef"):
                m = _HEAD.match(b, n["_r"][0])
                if m:
                    sites.append(("params", n, m.end(1)))
            elif t == "Assign" and len(n["targets"]) == 1 and n["targets"][0]["_t"] == "Name" and n["value"]["_t"] not in ("Yield", "YieldFrom", "Tuple", "Starred") \
                    and n["targets"][0]["_r"][0] == n["_r"][0]:
                # must be a statement at the start of a logical line (the known deviation after `;` / `:` is exercised too)
                sites.append(("alias", n, n["targets"][0]["_r"][1]))
        if not sites:
            continue
        rng.shuffle(sites)
        chosen = sites[:rng.randint(1, 3)]
        ins = []  # (pos, text, before_flag)
        patches = []
        for kind, node, pos in chosen:
            if kind == "params":
                text, parts = make_type_params(rng)
                ins.append((pos, text))
                patches.append((kind, node, pos, parts, text))
            else:
                parts, text = None, ""
                if rng.random() < .6:
                    text, parts = make_type_params(rng)
                    ins.append((pos, text))
                ins.append((node["_r"][0], "type "))
                patches.append((kind, node, pos, parts, text))
        ins.sort()

        def mstart(o):
            return o + sum(len(t.encode()) for p, t in ins if p <= o)

        def mend(o):
            return o + sum(len(t.encode()) for p, t in ins if p < o)

        def remap(n):
            if isinstance(n, dict):
                for k, v in n.items():
                    if k == "_r" and v is not None:
                        n[k] = [mstart(v[0]), mend(v[1])]
                    elif k != "_r":
                        remap(v)
            elif isinstance(n, list):
                for x in n:
                    remap(x)
        at_line_start = True
        remap(pt)
        for kind, node, pos, parts, text in patches:
            # absolute start of the inserted parameter list in the new text
            abs_start = pos + sum(len(t.encode()) for p, t in ins if p < pos or (p == pos and t == "type "))
            if kind == "params":
                node["type_params"] = _tp_nodes(parts, abs_start)
            else:
                r = node["_r"]
                node["_r"] = [r[0] - 5, r[1]]
                node["_t"] = "TypeAlias"
                node["name"] = node.pop("targets")[0]
                node["type_params"] = _tp_nodes(parts, abs_start) if parts else []
                ls = b.rfind(b"\n", 0, pos) + 1
        new = b
        for p, t in sorted(ins, key=lambda x: (-x[0], 0 if x[1] == "type " else 1)):
            new = new[:p] + t.encode() + new[p:]
        return new.decode(), pt, {"base": base, "insertions": ins}
    return None


def classify_reject(text, rep, info):
    """`type` alias statements that are not at the start of a logical line are a known deviation."""
    b = text.encode()
    off = rep.get("offset", 0)
    # every `type ` insertion that does not start a line
    # (every occurrence is examined on its own: an earlier `type` used as a plain name on the same line must not
    # swallow the alias statement that follows it)
    for m in re.finditer(rb"(?<![A-Za-z0-9_\x80-\xff])type (?=[^\n=]*=)", b):
        ls = b.rfind(b"\n", 0, m.start()) + 1
        if b[ls:m.start()].strip(b" \t") != b"" and m.start() <= off <= b.find(b"\n", m.start()) % (len(b) + 1) + 1:
            return "softkw-type-alias-not-at-logical-line-start"
    return "unlisted:rust-rejects-pep695"


def check_program(h, res, tag, _text, kinds, check_ranges=False, report_tree=True, arbitrate=None):
    index = int(tag.split(":")[1])
    built = build(index)
    if built is None:
        res.counters["pep695:no-site"] += 1
        return
    text, pt, info = built
    rep = h.json("parse", ["exec", 0], text)
    res.seen("pep695\0" + text)
    wit = {"op": "parse", "mode": "exec", "text": text, "tag": tag}
    res.counters["reference-accepts:pep695"] += 1
    if "panic" in rep:
        res.add("unlisted:panic", rep, wit)
        return
    if "ok" not in rep:
        if not report_tree:
            res.counters["not-parsed (C01's business)"] += 1
            return
        cls = classify_reject(text, rep, info)
        if cls.startswith("unlisted"):
            from . import treework
            c2 = treework.classify_reject(text, "exec", rep, pt)
            if not c2.startswith("unlisted"):
                cls = c2
        res.add(cls, {"err": rep.get("err"), "offset": rep.get("offset"), "text": text[:200]}, wit)
        return
    rt = pyref.rust_tree(rep["ok"])
    d = pyref.Diff(text.encode(), check_ranges=check_ranges)
    d.go(rt, pt)
    res.counters["nodes-compared"] += d.nodes
    for cls, path, a, b in (d.tree[:20] if report_tree else []):
        res.add(cls, {"path": re.sub(r"\[\d+\]", "[]", path)[-90:], "rust": a, "reference": b}, wit)
    if check_ranges:
        for cls, path, rr, pr, summ, rnode_, rparent_ in d.ranges[:20]:
            if arbitrate is not None and arbitrate(cls, rr, rnode_, rparent_, text.encode(), wit):
                continue
            res.add(cls, {"path": re.sub(r"\[\d+\]", "[]", path)[-90:], "rust": rr, "reference": pr, "node": summ}, wit)
    for n, parent, field in pyref.walk(pt):
        kinds[n["_t"]] += 1
    if len(res.samples) < 3:
        res.sample({"tag": tag, "text": text[:300]})
    return rt, pt, text
