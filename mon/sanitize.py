"""Sanitizer layer: valgrind memcheck on the release harness and Miri on the same harness source.

Both run `vh --oneshot <op> <args> <payload-file>`; a report is an observation, a tool failure (timeout, tool
missing, build failure) is inconclusive — never a violation.
"""
import os
import re
import shutil
import subprocess
import tempfile
import time

from . import core

MIRI_TARGET = os.path.join(core.BUILD, "miri")  # core.BUILD already depends on VERIF_REPO


def _payload_file(payload):
    d = os.path.join(core.BUILD, "tmp")
    os.makedirs(d, exist_ok=True)
    f = tempfile.NamedTemporaryFile(dir=d, delete=False, suffix=".payload")
    f.write(payload if isinstance(payload, bytes) else payload.encode())
    f.close()
    return f.name


def valgrind(binary, op, args, payload, timeout=900):
    """Returns (status, detail): status in ok | report | inconclusive."""
    if not shutil.which("valgrind"):
        return "inconclusive", "valgrind not installed"
    pf = _payload_file(payload)
    try:
        cmd = ["valgrind", "-q", "--error-exitcode=99", "--leak-check=no", "--undef-value-errors=yes", binary, "--oneshot", op] + [str(a) for a in args] + [pf]
        try:
            p = subprocess.run(cmd, capture_output=True, timeout=timeout, preexec_fn=core.die_with_parent)
        except subprocess.TimeoutExpired:
            return "inconclusive", "valgrind timed out after %ds" % timeout
        err = p.stderr.decode("utf-8", "replace")
        if p.returncode == 99 or re.search(r"==\d+== (Invalid|Conditional jump|Use of uninitialised|Mismatched|Source and destination overlap)", err):
            return "report", err[-3000:]
        if p.returncode != 0:
            return "report", "exit code %d\n%s" % (p.returncode, err[-2000:])
        return "ok", p.stdout.decode("utf-8", "replace")
    finally:
        os.unlink(pf)


def miri(op, args, payload, feature="full", timeout=3000, seed=0):
    """Run one harness op under Miri. Returns (status, detail)."""
    pf = _payload_file(payload)
    env = dict(os.environ)
    env["CARGO_NET_OFFLINE"] = "true"
    env["CARGO_TARGET_DIR"] = MIRI_TARGET
    env["RUSTFLAGS"] = core.RUSTFLAGS
    env["MIRIFLAGS"] = "-Zmiri-disable-isolation -Zmiri-seed=%d" % seed
    env.pop("RUSTC_WRAPPER", None)
    lock = os.path.join(core.HARNESS, "Cargo.lock")
    if not os.path.exists(lock):
        shutil.copyfile(os.path.join(core.REPO, "Cargo.lock"), lock)
    cmd = ["cargo", "+nightly", "miri", "run", "--offline", "--no-default-features", "--features", feature, "--", "--oneshot", op] + [str(a) for a in args] + [pf]
    try:
        try:
            p = subprocess.run(cmd, cwd=core.HARNESS, env=env, capture_output=True, timeout=timeout, preexec_fn=core.die_with_parent)
        except subprocess.TimeoutExpired:
            return "inconclusive", "miri timed out after %ds" % timeout
        except FileNotFoundError:
            return "inconclusive", "cargo not found"
        err = p.stderr.decode("utf-8", "replace")
        if "Undefined Behavior" in err or "error: unsupported operation" in err or "memory leaked" in err or "error: the evaluated program" in err:
            return "report", err[-4000:]
        if p.returncode != 0:
            if "error: could not compile" in err or "no such command" in err or "is not installed" in err:
                return "inconclusive", "miri unavailable / build failed: " + err[-600:]
            return "report", "exit code %d\n%s" % (p.returncode, err[-3000:])
        return "ok", p.stdout.decode("utf-8", "replace")
    finally:
        os.unlink(pf)


def record(res, tool, status, detail, what, witness):
    res.counters["%s:%s" % (tool, status)] += 1
    if status == "report":
        res.add("unlisted:%s-report" % tool, {"what": what, "report": detail[-1500:]}, witness)
    elif status == "inconclusive":
        res.inconclusive.append("%s: %s" % (tool, detail[:200]))


def fuzz_shards(res, bins, payload, seed, valgrind_execs=1500, miri_execs=240, miri_shards=8):
    """C03: the fuzz op under valgrind (release build) and Miri."""
    import concurrent.futures as cf
    import json
    jobs = []
    vshards = 4 if valgrind_execs <= 400 else 12
    for i in range(vshards):
        jobs.append(("valgrind", i))
    for i in range(miri_shards if miri_execs else 0):
        jobs.append(("miri", i))

    def run(job):
        tool, i = job
        if tool == "valgrind":
            n = max(1, valgrind_execs // vshards)
            args = [seed + 100, i * n, n, 300]
            return job, args, valgrind(bins["deflt"], "fuzz", args, payload)
        n = max(1, miri_execs // miri_shards)
        args = [seed + 200, i * n, n, 120]
        return job, args, miri("fuzz", args, payload, seed=seed + i)
    if any(t == "miri" for t, _ in jobs):
        # build once before the parallel shards (they share the target dir)
        st, detail = miri("ping", [], b"")
        if st != "ok":
            res.inconclusive.append("miri warm-up: " + detail[:300])
            jobs = [j for j in jobs if j[0] != "miri"]
    with cf.ThreadPoolExecutor(max_workers=core.NCPU) as ex:
        for job, args, (status, detail) in ex.map(run, jobs):
            tool = job[0]
            record(res, tool, status, detail, "fuzz " + " ".join(map(str, args)), {"op": "fuzz", "tool": tool, "args": args})
            if status == "ok":
                try:
                    r = json.loads(detail.strip().split("\n")[-1])
                    res.counters["%s-execs" % tool] += r["execs"]
                    res.evaluations += r["execs"]
                    res.distinct_extra += r.get("distinct", 0)
                    for v in r["violations"]:
                        from .checks import c03
                        res.add(c03.classify(v), {"tool": tool, "what": v["what"], "detail": v["detail"], "mode": v["mode"], "offset": v["offset"]},
                                {"op": "parse", "mode": v["mode"], "offset": v["offset"], "input_hex": v["input"]})
                except (ValueError, KeyError, IndexError):
                    res.inconclusive.append("%s produced unparsable output" % tool)


def batch_under_tools(res, bins, op, args, payload, tools=("valgrind",), variant="deflt", what=""):
    """Run one batch op under the given tools; returns {tool: stdout or None}."""
    out = {}
    for tool in tools:
        if tool == "valgrind":
            st, detail = valgrind(bins[variant], op, args, payload)
        else:
            st, detail = miri(op, args, payload)
        record(res, tool, st, detail, what or op, {"op": op, "tool": tool, "args": list(args)})
        out[tool] = detail if st == "ok" else None
    return out
