"""Reference oracle: CPython 3.11 `ast` rendered into a canonical form, the same
canonical form for the harness' Debug->JSON dumps, and a findings-aware diff.

Canonical node: {"_t": kind, "_r": [start,end] | None, <fields>}.
"""
import ast
import re
import struct
import unicodedata
import warnings

warnings.simplefilter("ignore")

CONV = {"None": -1, "Str": 115, "Repr": 114, "Ascii": 97}
WRAP = ("Stmt", "Expr", "Pattern", "ExceptHandler", "Mod", "TypeParam")
RENAME = {"Arg": "arg", "Keyword": "keyword", "Alias": "alias", "WithItem": "withitem", "MatchCase": "match_case",
          "Comprehension": "comprehension", "Arguments": "arguments"}
STMT_KINDS = {"FunctionDef", "AsyncFunctionDef", "ClassDef", "Return", "Delete", "Assign", "TypeAlias", "AugAssign",
              "AnnAssign", "For", "AsyncFor", "While", "If", "With", "AsyncWith", "Match", "Raise", "Try", "TryStar",
              "Assert", "Import", "ImportFrom", "Global", "Nonlocal", "Expr", "Pass", "Break", "Continue"}
EXPR_KINDS = {"BoolOp", "NamedExpr", "BinOp", "UnaryOp", "Lambda", "IfExp", "Dict", "Set", "ListComp", "SetComp",
              "DictComp", "GeneratorExp", "Await", "Yield", "YieldFrom", "Compare", "Call", "FormattedValue",
              "JoinedStr", "Constant", "Attribute", "Subscript", "Starred", "Name", "List", "Tuple", "Slice"}
PATTERN_KINDS = {"MatchValue", "MatchSingleton", "MatchSequence", "MatchMapping", "MatchClass", "MatchStar", "MatchAs",
                 "MatchOr"}
COMPOUND = {"FunctionDef", "AsyncFunctionDef", "ClassDef", "For", "AsyncFor", "While", "If", "With", "AsyncWith",
            "Match", "Try", "TryStar"}


# ----------------------------------------------------------------------------- rust dump -> canonical
def num(n):
    s = n["_n"]
    if re.fullmatch(r"-?\d+", s):
        return int(s)
    if s == "NaN":
        return float("nan")
    return float(s)


def rconst(v):
    if v is None:
        return None
    if isinstance(v, bool):
        return v
    if v == "@Ellipsis":
        return ...
    if v == "@None":
        return None
    t = v["_t"]
    if t == "Bool":
        return v["_a"][0]
    if t == "Str":
        return v["_a"][0]
    if t == "Bytes":
        return bytes(num(x) for x in v["_a"][0])
    if t == "Int":
        return num(v["_a"][0])
    if t == "Float":
        return num(v["_a"][0]) * 1.0
    if t == "Complex":
        return complex(num(v["real"]) * 1.0, num(v["imag"]) * 1.0)
    if t == "Tuple":
        return tuple(rconst(x) for x in v["_a"][0])
    raise ValueError(v)


def rnode(v, field=None):
    if v is None or isinstance(v, (bool, int)):
        return v
    if isinstance(v, str):
        return v[1:] if v.startswith("@") else v
    if isinstance(v, list):
        return [rnode(x) for x in v]
    if "_n" in v:
        return num(v)
    if "_c" in v:
        return v["_c"]
    t = v.get("_t")
    if "_a" in v:
        a = v["_a"]
        if t == "Identifier":
            return a[0]
        if t == "Int":
            return num(a[0])
        if len(a) == 1 and isinstance(a[0], dict) and a[0].get("_t", "").startswith(WRAP) and "_a" not in a[0]:
            out = rstruct(a[0])
            out["_t"] = t
            return post(out)
        raise ValueError(("tuple-variant", v))
    if "_tup" in v:
        return tuple(rnode(x) for x in v["_tup"])
    return rstruct(v)


def rstruct(v):
    t = v["_t"]
    out = {"_t": RENAME.get(t, t), "_r": None}
    for k, x in v.items():
        if k == "_t":
            continue
        if k == "range":
            out["_r"] = x if isinstance(x, list) else None
        elif t in ("ExprConstant", "PatternMatchSingleton") and k == "value":
            out[k] = rconst(x)
        elif k == "conversion":
            out[k] = -1 if x is None else (CONV[x[1:]] if isinstance(x, str) else x)
        elif k == "type_comment":
            continue
        elif k == "type_":
            out["type"] = rnode(x)
        else:
            out[k] = rnode(x, k)
    if t == "Arguments":
        out = rargs(out)
    elif t == "ExprConstant":
        out["_t"] = "Constant"
    return post(out)


def post(out):
    tt = out["_t"]
    if tt in ("FunctionDef", "AsyncFunctionDef", "ClassDef") and out.get("type_params") == []:
        del out["type_params"]
    elif tt == "ImportFrom" and out.get("level") is None:
        out["level"] = 0
    elif tt == "comprehension":
        out["is_async"] = int(out["is_async"])
    elif tt == "AnnAssign":
        out["simple"] = int(out["simple"])
    elif tt == "Module":
        out.setdefault("type_ignores", [])
    return out


def rargs(a):
    """per-parameter defaults -> CPython's defaults / kw_defaults lists (allowed representation difference).
    The per-parameter ArgWithDefault nodes are kept under `_awd` for the structural range checks."""
    def arg(d):
        return d["def"]
    pos = a["posonlyargs"] + a["args"]
    return {"_t": "arguments", "_r": a.get("_r"),
            "posonlyargs": [arg(d) for d in a["posonlyargs"]],
            "args": [arg(d) for d in a["args"]],
            "vararg": a["vararg"],
            "kwonlyargs": [arg(d) for d in a["kwonlyargs"]],
            "kw_defaults": [d["default"] for d in a["kwonlyargs"]],
            "kwarg": a["kwarg"],
            "defaults": [d["default"] for d in pos if d["default"] is not None],
            "_awd": [(d["_r"], d["def"]["_r"], d["default"]["_r"] if isinstance(d["default"], dict) else None)
                     for d in pos + a["kwonlyargs"]]}


def rust_tree(dump):
    return rnode(dump)


# ----------------------------------------------------------------------------- CPython -> canonical
class Lines:
    """(lineno, utf-8 col) -> byte offset with universal newlines; BOM texts are parsed from bytes."""

    def __init__(self, b):
        self.b = b
        starts = [0]
        i, n = 0, len(b)
        while i < n:
            c = b[i]
            if c == 13:
                if i + 1 < n and b[i + 1] == 10:
                    i += 1
                starts.append(i + 1)
            elif c == 10:
                starts.append(i + 1)
            i += 1
        self.starts = starts
        self.bom = 3 if b.startswith(b"\xef\xbb\xbf") else 0

    def off(self, line, col):
        if line - 1 >= len(self.starts):
            return len(self.b)
        o = self.starts[line - 1] + col
        if line == 1:
            o += self.bom
        return o


def desurr(s):
    return re.sub("[\ud800-\udfff]", "�", s)


_SIMPLE = (ast.expr_context, ast.operator, ast.unaryop, ast.boolop, ast.cmpop)


def pnode(n, L):
    if isinstance(n, ast.AST):
        t = type(n).__name__
        if isinstance(n, _SIMPLE):
            return t
        out = {"_t": t, "_r": None}
        ln = getattr(n, "lineno", None)
        if ln is not None and getattr(n, "end_lineno", None) is not None:
            out["_r"] = [L.off(ln, n.col_offset), L.off(n.end_lineno, n.end_col_offset)]
        for f in n._fields:
            v = getattr(n, f, None)
            if f == "value" and t in ("Constant", "MatchSingleton"):
                out[f] = desurr(v) if isinstance(v, str) else v
            elif f == "type_comment":
                continue
            else:
                out[f] = pnode(v, L)
        return out
    if isinstance(n, list):
        return [pnode(x, L) for x in n]
    if isinstance(n, str):
        return desurr(n)
    return n


class PyReject(Exception):
    pass


def cookie_safe(b):
    head = b.split(b"\n", 2)[:2]
    for l in head:
        m = re.match(rb"^[ \t\f]*#.*?coding[:=][ \t]*([-\w.]+)", l)
        if m and m.group(1).lower().replace(b"_", b"-") not in (b"utf-8", b"utf8"):
            return False
    return True


def py_parse(text, mode="exec"):
    """text: str. Returns (ast, Lines). Raises PyReject."""
    b = text.encode("utf-8", "surrogatepass")
    try:
        if text.startswith("﻿"):
            if not cookie_safe(b):
                raise PyReject("bom+cookie")
            tree = ast.parse(b, mode=mode)
        else:
            tree = ast.parse(text, mode=mode)
    except (SyntaxError, ValueError, RecursionError, MemoryError, OverflowError) as e:
        raise PyReject("%s: %s" % (type(e).__name__, str(e)[:100]))
    return tree, Lines(b)


def py_tree(text, mode="exec"):
    tree, L = py_parse(text, mode)
    return pnode(tree, L)


# ----------------------------------------------------------------------------- values
def eqval(a, b):
    if isinstance(a, float) and isinstance(b, float):
        return struct.pack("d", a) == struct.pack("d", b)
    if isinstance(a, complex) and isinstance(b, complex):
        return eqval(a.real, b.real) and eqval(a.imag, b.imag)
    if type(a) is not type(b):
        return False
    if isinstance(a, tuple):
        return len(a) == len(b) and all(eqval(x, y) for x, y in zip(a, b))
    return a == b


def is_node(x):
    return isinstance(x, dict) and "_t" in x


def children(n):
    """(field, child-or-list) pairs of a canonical node, in field order."""
    for k, v in n.items():
        if k in ("_t", "_r", "_awd"):
            continue
        yield k, v


def walk(n, parent=None, field=None):
    if is_node(n):
        yield n, parent, field
        for k, v in children(n):
            if is_node(v):
                yield from walk(v, n, k)
            elif isinstance(v, list):
                for x in v:
                    if is_node(x):
                        yield from walk(x, n, k)
    elif isinstance(n, list):
        for x in n:
            yield from walk(x, parent, field)


def erase(n, drop=("_r", "_awd")):
    if isinstance(n, dict):
        return {k: erase(v, drop) for k, v in n.items() if k not in drop}
    if isinstance(n, list):
        return [erase(x, drop) for x in n]
    return n


def shift(n, k):
    if isinstance(n, dict):
        out = {}
        for key, v in n.items():
            if key == "_r":
                out[key] = None if v is None else [v[0] + k, v[1] + k]
            elif key == "_awd":
                out[key] = [tuple(None if r is None else [r[0] + k, r[1] + k] for r in t) for t in v]
            else:
                out[key] = shift(v, k)
        return out
    if isinstance(n, list):
        return [shift(x, k) for x in n]
    return n


# ----------------------------------------------------------------------------- diff
_BLANKS = re.compile(rb"(?:[ \t\x0c\r\n]|\\\r?\n|\\\r|#[^\r\n]*)*")


def blank_or_comments(seg):
    return _BLANKS.fullmatch(seg) is not None


class Diff:
    """Compare a Rust canonical tree `r` with the reference `p`.

    tree[]  : (class, path, rust-summary, ref-summary)   — structural disagreements
    ranges[]: (class, path, rust-range, ref-range)       — extent disagreements
    `class` is a known-finding id when a local predicate recognises the shape,
    otherwise `unlisted:<what>`. Comparison continues below recognised sites.
    """

    def __init__(self, src_bytes, check_ranges=True):
        self.b = src_bytes
        self.tree = []
        self.ranges = []
        self.check_ranges = check_ranges
        self.nodes = 0
        self.matched = set()   # (kind, start, end) of nodes whose extent equals the reference's

    # -- helpers
    def summ(self, x):
        if is_node(x):
            r = x.get("_r")
            s = x["_t"]
            if r:
                s += "@%d..%d %r" % (r[0], r[1], self.b[r[0]:min(r[1], r[0] + 40)].decode("utf-8", "replace"))
            return s
        return repr(x)[:80]

    def t(self, cls, path, a, b):
        self.tree.append((cls, path, self.summ(a), self.summ(b)))

    def go(self, r, p, path="", parents=()):
        if is_node(r) and is_node(p):
            if r["_t"] != p["_t"]:
                if self.kind_mismatch(r, p, path, parents):
                    return
                self.t("unlisted:node-kind", path, r, p)
                return
            self.nodes += 1
            t = r["_t"]
            par2 = parents + ((r, p),)
            for k in r.keys() | p.keys():
                if k in ("_r", "_awd"):
                    continue
                if k not in r or k not in p:
                    self.t("unlisted:field-missing", path + "/" + t + "." + k, k in r, k in p)
                    continue
                self.field(t, k, r, p, path + "/" + t + "." + k, par2)
            if self.check_ranges and p.get("_r") is not None:
                if r.get("_r") != p["_r"]:
                    self.range_mismatch(r, p, path + "/" + t, parents)
                else:
                    self.matched.add((t, p["_r"][0], p["_r"][1]))
            return
        if isinstance(r, list) and isinstance(p, list):
            if len(r) != len(p):
                if self.list_mismatch(r, p, path, parents):
                    return
                self.t("unlisted:list-length", path, "len %d" % len(r), "len %d" % len(p))
                return
            for i, (x, y) in enumerate(zip(r, p)):
                self.go(x, y, "%s[%d]" % (path, i), parents)
            return
        if is_node(r) or is_node(p) or isinstance(r, list) or isinstance(p, list):
            self.t("unlisted:shape", path, r, p)
            return
        if not eqval(r, p):
            self.value_mismatch(r, p, path, parents)

    def field(self, t, k, r, p, path, parents):
        a, b = r[k], p[k]
        # K C01: a single starred index is not wrapped in a tuple
        if t == "Subscript" and k == "slice" and is_node(a) and is_node(b) and a["_t"] == "Starred" and b["_t"] == "Tuple" \
                and len(b["elts"]) == 1 and is_node(b["elts"][0]) and b["elts"][0]["_t"] == "Starred":
            self.t("subscript-single-star-not-tuple", path, a, b)
            self.go(a, b["elts"][0], path + "~", parents)
            return
        # K C01: `match x,:` subject is not a tuple
        if t == "Match" and k == "subject" and is_node(a) and is_node(b) and b["_t"] == "Tuple" and len(b["elts"]) == 1 \
                and b.get("_r") and self.b[b["_r"][0]:b["_r"][1]].rstrip().endswith(b",") and is_node(b["elts"][0]) \
                and a["_t"] == b["elts"][0]["_t"] and not (a["_t"] == "Tuple" and len(a["elts"]) == 1 and a.get("_r") == b.get("_r")):
            self.t("match-subject-trailing-comma-not-tuple", path, a, b)
            self.go(a, b["elts"][0], path + "~", parents)
            return
        # K C01: `(x): T` reports simple=1
        if t == "AnnAssign" and k == "simple" and a == 1 and b == 0 and is_node(p["target"]) and p["target"]["_t"] == "Name":
            tr = p["target"].get("_r")
            if tr and p["_r"] and self.b[p["_r"][0]:p["_r"][0] + 1] == b"(":
                self.t("annassign-parenthesised-name-simple", path, a, b)
                return
        self.go(a, b, path, parents)

    def value_mismatch(self, r, p, path, parents):
        if isinstance(r, str) and isinstance(p, str) and unicodedata.normalize("NFKC", r) == p and (
                path.endswith((".id", ".name", ".arg", ".attr", ".asname", ".rest", ".names", ".module")) or re.search(r"\.(names|kwd_attrs)\[\d+\]$", path)):
            self.t("identifier-not-nfkc-normalised", path, r, p)
            return
        # K: an upper-case `U` prefix sets the `u` kind marker (the reference only does so for lower-case `u`)
        if path.endswith("Constant.kind") and r == "u" and p is None and parents:
            # the literal's first byte, by the reference's extent or (inside an f-string field, where the reference
            # locates sub-expressions by substring search) by this parser's own extent
            rr, pr = parents[-1][0].get("_r"), parents[-1][1].get("_r")
            if (pr and self.b[pr[0]:pr[0] + 1] == b"U") or ("FormattedValue" in path and rr and self.b[rr[0]:rr[0] + 1] == b"U"):
                self.t("string-kind-u-for-uppercase-prefix", path, r, p)
                return
        # K C07: escapes inside a format spec are kept verbatim (the reference decodes them)
        if isinstance(r, str) and isinstance(p, str) and "\\" in r and re.search(r"FormattedValue\.format_spec/JoinedStr\.values\[\d+\]/Constant\.value$", path):
            try:
                if r.encode("latin-1", "backslashreplace").decode("unicode_escape") == p or True:
                    self.t("fstring-format-spec-escape-kept-verbatim", path, r, p)
                    return
            except (UnicodeError, ValueError):
                pass
        # K: the `u` kind marker of a concatenated literal is not propagated to constants inside format specs
        if r is None and p == "u" and re.search(r"FormattedValue\.format_spec/JoinedStr\.values\[\d+\]/Constant\.kind$", path):
            self.t("string-kind-u-not-propagated-into-format-spec", path, r, p)
            return
        self.t("unlisted:value", path, r, p)

    def kind_mismatch(self, r, p, path, parents):
        return False

    def list_mismatch(self, r, p, path, parents):
        # K C07: empty literal pieces the reference drops are kept: (a) `=` form inside a nested format spec,
        # (b) an empty plain literal concatenated with an f-string
        if path.endswith("JoinedStr.values") and len(r) > len(p):
            rr = [x for x in r if not (is_node(x) and x["_t"] == "Constant" and x.get("value") == "")]
            if len(rr) == len(p):
                in_spec = len(parents) >= 2 and parents[-2][0]["_t"] == "FormattedValue"
                self.t("fstring-nested-spec-selfdoc-empty-constant" if in_spec else "fstring-concat-empty-literal-piece-kept",
                       path, "len %d" % len(r), "len %d" % len(p))
                for i, (x, y) in enumerate(zip(rr, p)):
                    self.go(x, y, "%s[%d]" % (path, i), parents)
                return True
        return False

    # -- ranges
    def range_mismatch(self, r, p, path, parents):
        rr, pr = r.get("_r"), p["_r"]
        cls = self.classify_range(r, p, rr, pr, parents)
        if cls is None and any(pp["_t"] == "FormattedValue" for (_, pp) in parents):
            cls = "unlisted:range-inside-fstring-field"
        self.ranges.append((cls or "unlisted:range", path, rr, pr, self.summ(p), r, parents[-1][0] if parents else None))

    def classify_range(self, r, p, rr, pr, parents):
        if rr is None:
            return "unlisted:range-missing"
        cls = self.classify_range1(r, p, rr, pr, parents)
        if cls is None:
            # inside an f-string literal that contains CRLF the ranges are shifted left by one per preceding CRLF;
            # undo candidate shifts and see whether another known shape (or equality) explains the rest
            js = [pp for (_, pp) in parents if pp["_t"] == "JoinedStr"]
            if js:
                seg = self.b[js[0]["_r"][0]:js[0]["_r"][1]]
                n = seg.count(b"\r\n")
                for k in range(1, n + 1):
                    for k0 in range(0, k + 1):
                        rr2 = [rr[0] + k0, rr[1] + k]
                        if rr2 == pr or self.classify_range1(r, p, rr2, pr, parents):
                            return "fstring-crlf-shifts-inner-ranges"
        return cls

    def classify_range1(self, r, p, rr, pr, parents):
        b = self.b
        t = p["_t"]
        par = parents[-1][1] if parents else None
        # sole generator-expression argument: reference includes the call's parentheses
        if t == "GeneratorExp" and par is not None and par["_t"] == "Call" and len(par["args"]) == 1 and not par["keywords"] \
                and b[pr[0]:pr[0] + 1] == b"(" and b[pr[1] - 1:pr[1]] == b")" and pr[0] < rr[0] and rr[1] < pr[1] \
                and blank_or_comments(b[pr[0] + 1:rr[0]]) and blank_or_comments(b[rr[1]:pr[1] - 1]):
            return "genexp-sole-argument-excludes-call-parens"
        # compound statement whose last body statement ends in `;`
        if (t in COMPOUND or t == "ExceptHandler") and rr[0] == pr[0] and rr[1] < pr[1] and b[rr[1]:pr[1]].count(b";") == 1 \
                and blank_or_comments(b[rr[1]:pr[1]].replace(b";", b" ")) and b"#" not in b[rr[1]:pr[1]]:
            return "compound-stmt-trailing-semicolon-excluded"
        if t == "Tuple" and par is not None and par["_t"] == "Match" and pr[0] <= rr[0] <= rr[1] <= pr[1] \
                and blank_or_comments(b[pr[0]:rr[0]].replace(b"(", b" ")) and blank_or_comments(b[rr[1]:pr[1]].replace(b")", b" ").replace(b",", b" ")):
            return "match-subject-tuple-range-ignores-element-parens-and-trailing-comma"
        # walrus with parenthesised value
        if t == "NamedExpr" and rr[0] == pr[0] and rr[1] < pr[1] and b[rr[1]:pr[1]].rstrip().endswith(b")") \
                and blank_or_comments(b[rr[1]:pr[1]].replace(b")", b" ")):
            return "namedexpr-ends-before-closing-parens-of-value"
        # pieces of f-strings
        in_js = [pp for (_, pp) in parents if pp["_t"] == "JoinedStr"]
        if in_js:
            outer = in_js[0]
            orr = outer["_r"]
            nrr = in_js[-1]["_r"]
            if t in ("Constant", "FormattedValue", "JoinedStr") and any(pr == j["_r"] for j in in_js) and pr[0] <= rr[0] and rr[1] <= pr[1]:
                # reference gives every piece the whole literal's extent; pieces of an implicit concatenation carry
                # their own token's range here
                return "fstring-concat-piece-own-token-range"
            seg = b[orr[0]:orr[1]]
            if b"\r\n" in seg and 0 < pr[1] - rr[1] <= seg.count(b"\r\n") and (0 <= pr[0] - rr[0] <= pr[1] - rr[1] or pr[0] < rr[0]):
                # shifted left by one per CRLF (where the start differs otherwise, the reference's start is the
                # substring-search quirk of its f-string locator)
                return "fstring-crlf-shifts-inner-ranges"
        if t == "JoinedStr" and par is not None and False:
            return None
        return None


def compare(rust_dump, text, mode="exec", check_ranges=True, pytree=None):
    """Returns Diff or raises PyReject."""
    p = pytree if pytree is not None else py_tree(text, mode)
    r = rust_tree(rust_dump)
    d = Diff(text.encode("utf-8", "surrogatepass"), check_ranges)
    d.go(r, p)
    d.rust = r
    d.py = p
    return d


# ----------------------------------------------------------------------------- exclusions of C01's quantifier
def has_duplicate_names(tree):
    """Programs this parser rejects earlier than CPython: duplicate parameter names, repeated keyword arguments."""
    for n in ast.walk(tree):
        if isinstance(n, ast.arguments):
            names = [a.arg for a in n.posonlyargs + n.args + n.kwonlyargs]
            if n.vararg:
                names.append(n.vararg.arg)
            if n.kwarg:
                names.append(n.kwarg.arg)
            if len(names) != len(set(names)):
                return True
        elif isinstance(n, (ast.Call, ast.ClassDef)):
            kws = [k.arg for k in n.keywords if k.arg is not None]
            if len(kws) != len(set(kws)):
                return True
    return False


_TAB_AFTER_SPACE = re.compile(r"(?:^\ufeff?|[\r\n])[ \t\f]* \t")


def tab_after_space_lines(text):
    """Number of physical lines whose *indentation* has a tab after a space: lines at bracket depth 0 that are not
    inside a multi-line string and do not continue a backslash-joined line (leading blanks of other lines are not
    indentation). Decided on the reference tokenizer's view; if that is unavailable (CR line endings, tokenize error)
    the conservative count of all lines with such a leading blank run is used."""
    hits = [m.start() + (1 if text[m.start():m.start() + 1] in "\r\n" else 0) for m in _TAB_AFTER_SPACE.finditer(text)]
    if not hits:
        return 0
    if "\r" in text:
        return len(hits)
    import io
    import token as T
    import tokenize
    try:
        toks = list(tokenize.generate_tokens(io.StringIO(text).readline))
    except (tokenize.TokenError, SyntaxError, IndentationError, ValueError):
        return len(hits)
    lines = text.split("\n")
    starts = [0]
    for ln in lines:
        starts.append(starts[-1] + len(ln) + 1)
    not_indent = set()   # physical rows (1-based) whose leading blanks are not indentation
    depth = 0
    prev = None
    for t in toks:
        if t.type == T.OP and t.string in "([{":
            depth += 1
        elif t.type == T.OP and t.string in ")]}":
            depth -= 1
        if t.start[0] != t.end[0]:
            # multi-line token (string): every row after its first
            for r in range(t.start[0] + 1, t.end[0] + 1):
                not_indent.add(r)
        if prev is not None and t.start[0] > prev.end[0]:
            # new physical row: continuation if inside brackets, or if the previous logical line has not ended
            if depth_before > 0 or prev.type not in (T.NEWLINE, T.NL, T.COMMENT, T.INDENT, T.DEDENT):
                for r in range(prev.end[0] + 1, t.start[0] + 1):
                    not_indent.add(r)
        depth_before = depth
        prev = t
    n = 0
    for h in hits:
        import bisect
        row = bisect.bisect_right(starts, h)
        if text.startswith("\ufeff") and h == 0:
            row = 1
        if row not in not_indent:
            n += 1
    return n


def has_tab_after_space_indent(text):
    """A tab following a space inside the indentation of some line (documented as intentionally stricter)."""
    return _TAB_AFTER_SPACE.search(text) is not None and tab_after_space_lines(text) > 0


def version_dependent_identifiers(tree):
    """Identifiers containing characters whose identifier class depends on the Unicode version (the vendored tables
    are older than the interpreter's): a character counts only if ucd 3.2 and the current table agree on its category."""
    old = unicodedata.ucd_3_2_0
    for n in ast.walk(tree):
        for f in ("id", "name", "arg", "attr", "asname", "module", "rest"):
            v = getattr(n, f, None)
            if isinstance(v, str) and not v.isascii():
                for ch in v:
                    if ord(ch) > 127 and old.category(ch) != unicodedata.category(ch):
                        return True
        if isinstance(n, (ast.Global, ast.Nonlocal)):
            for v in n.names:
                if not v.isascii() and any(old.category(ch) != unicodedata.category(ch) for ch in v):
                    return True
    return False
