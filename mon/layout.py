"""W3d: layout-only rewrites (C08, also the hostile layouts of C02/C05/C13).

All rewrites work on CPython's tokenize stream of an LF-only text. A rewrite may produce something that is not
layout-only (e.g. touches a multi-line string): callers keep a rewritten text only if the reference gives it the same
tree as the original, so a rewriter bug can only reduce coverage.
"""
import ast
import token as T

from . import derive

OPEN, CLOSE = "([{", ")]}"


def _toks(text):
    if "\r" in text or "\x0c" in text:
        return None, None
    toks = derive.tokens(text)
    if not toks:
        return None, None
    return toks, derive.Positions(text)


def _depths(toks):
    d = 0
    out = []
    for t in toks:
        if t.type == T.OP and t.string in OPEN:
            out.append(d)
            d += 1
        elif t.type == T.OP and t.string in CLOSE:
            d -= 1
            out.append(d)
        else:
            out.append(d)
    return out


def trailing_blanks(text, rng):
    toks, P = _toks(text)
    if not toks:
        return None
    spans = []
    for t in toks:
        if t.type in (T.NEWLINE, T.NL) and t.string == "\n" and rng.random() < .4:
            i = P.idx(t.start)
            spans.append((i, i, rng.choice([" ", "  ", "\t", " \t "])))
    return derive.replace_spans(text, spans) if spans else None


def blank_and_comment_lines(text, rng):
    toks, P = _toks(text)
    if not toks:
        return None
    spans = []
    dep = _depths(toks)
    for k, t in enumerate(toks):
        if t.type in (T.NEWLINE, T.NL) and t.string == "\n" and rng.random() < .3:
            i = P.idx(t.end)
            ins = rng.choice(["\n", "   \n", "# c\n", "        # indented comment\n", "\t\n", "#\n", "\n\n", "  #é 日本\n"])
            spans.append((i, i, ins))
    if rng.random() < .3:
        spans.append((0, 0, rng.choice(["\n", "# first\n", "   \n", "#!shebang\n# -*- coding: utf-8 -*-\n"])))
    return derive.replace_spans(text, spans) if spans else None


def eol_comments(text, rng):
    toks, P = _toks(text)
    if not toks:
        return None
    spans = []
    prev = None
    for t in toks:
        if t.type in (T.NEWLINE, T.NL) and t.string == "\n" and rng.random() < .4 and (prev is None or prev.type != T.COMMENT):
            if prev is not None and prev.end[0] == t.start[0] and prev.type != T.NL:
                i = P.idx(t.start)
                spans.append((i, i, rng.choice([" # c", "  #c: x = 1", "#", " # 'quote\" (", "\t# é"])))
        prev = t
    return derive.replace_spans(text, spans) if spans else None


def reindent(text, rng):
    """New indentation string per block (width 1-8 or tabs), applied to the first physical line of every logical line."""
    toks, P = _toks(text)
    if not toks:
        return None
    stack = [""]
    spans = []
    first_of_line = True
    changed = False
    for k, t in enumerate(toks):
        if t.type == T.INDENT:
            parent = stack[-1]
            # (a step may add tabs and blanks at once, as long as no tab comes after a blank)
            unit = rng.choice([" ", "  ", "   ", "    ", "     ", "        ", "\t", "\t\t", "\t ", "\t  ", "\t\t    "])
            if "\t" in unit and parent.strip("\t"):
                unit = "    "
            stack.append(parent + unit)
            continue
        if t.type == T.DEDENT:
            stack.pop()
            continue
        if t.type in (T.NL, T.COMMENT):
            if t.type == T.NL:
                first_of_line = True
            continue
        if t.type == T.NEWLINE:
            first_of_line = True
            continue
        if first_of_line and t.type != T.ENDMARKER:
            ls = P.starts[t.start[0] - 1]
            cur = text[ls:P.idx(t.start)]
            if cur.strip(" \t") == "":
                if cur != stack[-1]:
                    changed = True
                spans.append((ls, P.idx(t.start), stack[-1]))
            first_of_line = False
    return derive.replace_spans(text, spans) if changed else None


def form_feeds(text, rng):
    toks, P = _toks(text)
    if not toks:
        return None
    spans = []
    first = True
    for t in toks:
        if t.type in (T.NEWLINE,):
            first = True
            continue
        if t.type in (T.NL, T.COMMENT, T.INDENT, T.DEDENT):
            continue
        if first and t.type != T.ENDMARKER:
            first = False
            if rng.random() < .3:
                ls = P.starts[t.start[0] - 1]
                # blanks in front of the form feed do not count: it restarts the column
                spans.append((ls, ls, rng.choice(["\x0c", "\x0c", " \x0c", "    \x0c", "\t\x0c", "  \x0c\x0c", "        \x0c"])))
    return derive.replace_spans(text, spans) if spans else None


def form_feeds_between_tokens(text, rng):
    """A form feed inside (or as) the whitespace between two tokens of one line, at any bracket depth, also as the
    first character of a continuation line and directly after a backslash join."""
    toks, P = _toks(text)
    if not toks:
        return None
    spans = []
    sig = (T.NAME, T.NUMBER, T.STRING, T.OP)
    for k in range(len(toks) - 1):
        a, b = toks[k], toks[k + 1]
        if a.type not in sig or b.type not in sig or rng.random() > .12:
            continue
        i, j = P.idx(a.end), P.idx(b.start)
        gap = text[i:j]
        if a.end[0] == b.start[0]:
            if gap and gap.strip(" \t") == "":
                spans.append((i, j, rng.choice(["\x0c", "\x0c ", " \x0c", "\t\x0c\t", "\x0c\x0c"])))
            elif not gap and (a.type == T.OP or b.type == T.OP) and not (a.type == T.OP and b.type == T.OP) and "." not in (a.string, b.string):
                spans.append((i, j, "\x0c"))
        elif "#" not in gap and gap.strip(" \t\n\\") == "":
            # continuation line (inside brackets or after a backslash join): form feed opens the next physical line
            nl = gap.rfind("\n")
            spans.append((i + nl + 1, i + nl + 1, "\x0c"))
    return derive.replace_spans(text, spans) if spans else None


def continuation_then_blank_line(text, rng):
    """End a logical line with a backslash join onto an empty line (`x = 1 \\` + empty line): the joined line is empty,
    so the statement ends there."""
    toks, P = _toks(text)
    if not toks:
        return None
    spans = []
    prev = None
    for t in toks:
        if t.type == T.NEWLINE and t.string == "\n" and prev is not None and prev.type != T.COMMENT and rng.random() < .2:
            i = P.idx(t.start)
            spans.append((i, i, rng.choice([" \\\n", "\\\n", " \\\n \\\n"])))
        prev = t
    return derive.replace_spans(text, spans) if spans else None


def backslash_only_lines(text, rng):
    """A physical line of nothing but the block's indentation and a backslash in front of a logical line: joined onto a blank
    or comment-only line it is itself blank; joined onto the statement it leaves the statement where it was (the whitespace in
    front of the first backslash is the indentation of what follows, whatever the joined line starts with)."""
    toks, P = _toks(text)
    if not toks:
        return None
    spans = []
    first = True
    for t in toks:
        if t.type == T.NEWLINE:
            first = True
            continue
        if t.type in (T.NL, T.COMMENT, T.INDENT, T.DEDENT):
            continue
        if first and t.type != T.ENDMARKER:
            first = False
            if rng.random() > .2:
                continue
            ls = P.starts[t.start[0] - 1]
            ind = text[ls:P.idx(t.start)]
            if ind.strip(" \t") != "":
                continue
            k = rng.randrange(7)
            if k == 6:      # a backslash at column 0 leaves the measuring to the joined line itself
                spans.append((ls, ls, "\\\n"))
                continue
            if "\t" in ind and k in (0, 1):
                k = 2       # (the reference compares a continued tab indentation in columns and calls it inconsistent)
            if k == 0:      # joined onto the statement's own line
                spans.append((ls, ls, ind + "\\\n"))
            elif k == 1 and ind and "\t" not in ind:   # ... whose own leading blanks no longer matter
                spans.append((ls, P.idx(t.start), ind + "\\\n" + " " * rng.choice([0, 1, len(ind), len(ind) + 3])))
            elif k == 2:    # joined onto an empty line
                spans.append((ls, ls, ind + "\\\n\n"))
            elif k == 3:    # ... with other blanks in front of the backslash than the block has
                spans.append((ls, ls, " " * rng.choice([0, 1, 2, 5, 9]) + "\\\n" + " " * rng.choice([0, 0, 3]) + "\n"))
            elif k == 4:    # joined onto a comment-only line
                spans.append((ls, ls, ind + "\\\n" + rng.choice(["", ind, "  "]) + "# joined\n"))
            else:           # two of them in a row
                spans.append((ls, ls, ind + "\\\n" + ind + "\\\n\n"))
    return derive.replace_spans(text, spans) if spans else None


def bom(text, rng):
    return "﻿" + text if not text.startswith("﻿") else None


def _gap_spans(text, rng, want_depth0, make):
    toks, P = _toks(text)
    if not toks:
        return None
    dep = _depths(toks)
    spans = []
    sig = (T.NAME, T.NUMBER, T.STRING, T.OP)
    for k in range(len(toks) - 1):
        a, b = toks[k], toks[k + 1]
        if a.type not in sig or b.type not in sig:
            continue
        d = dep[k + 1] if not (b.type == T.OP and b.string in CLOSE) else dep[k + 1] + 1
        inside = d > 0
        if inside == want_depth0:
            continue
        if a.end[0] != b.start[0]:
            continue
        if rng.random() < .12:
            i, j = P.idx(a.end), P.idx(b.start)
            spans.append((i, j, make(text[i:j])))
    return derive.replace_spans(text, spans) if spans else None


def backslash_joins(text, rng):
    return _gap_spans(text, rng, True, lambda gap: rng.choice([" \\\n", "\\\n ", " \\\n        ", " \\\n\\\n ", " \\\n \t", "\\\n  \t "]) )


def bracket_newlines(text, rng):
    # (leading blanks of a continuation line are not indentation: a tab after a space is fine there)
    return _gap_spans(text, rng, False, lambda gap: rng.choice(["\n", "\n    ", " # c\n  ", "\n\n\t", "\n#x\n", "\n \t", "\n  \t ", "\n \t# c\n \t\n\t \t"]))


def spaces_between_tokens(text, rng):
    toks, P = _toks(text)
    if not toks:
        return None
    spans = []
    sig = (T.NAME, T.NUMBER, T.STRING, T.OP)
    for k in range(len(toks) - 1):
        a, b = toks[k], toks[k + 1]
        if a.type in sig and b.type in sig and a.end[0] == b.start[0] and rng.random() < .15:
            i, j = P.idx(a.end), P.idx(b.start)
            if j > i:
                spans.append((i, j, rng.choice(["  ", "\t", "   ", " \t "])))
            elif a.type == T.OP or b.type == T.OP:
                if not (a.type == T.OP and b.type == T.OP) and not (a.string in (".",) or b.string in (".",)):
                    spans.append((i, j, " "))
    return derive.replace_spans(text, spans) if spans else None


def tight_spacing(text, rng):
    """Remove the blanks between two tokens of one line where at least one of them is an operator / delimiter
    (`lambda: 0` -> `lambda:0`, `a = b` -> `a=b`, `f(a, b)` -> `f(a,b)`); the reference-equality filter drops the
    rewrites that glue two tokens into a different one."""
    toks, P = _toks(text)
    if not toks:
        return None
    spans = []
    sig = (T.NAME, T.NUMBER, T.STRING, T.OP)
    for k in range(len(toks) - 1):
        a, b = toks[k], toks[k + 1]
        if a.type in sig and b.type in sig and a.end[0] == b.start[0] and (a.type == T.OP or b.type == T.OP) and rng.random() < .5:
            i, j = P.idx(a.end), P.idx(b.start)
            if j > i and text[i:j].strip(" \t") == "":
                if a.type == T.OP and b.type == T.OP and (a.string + b.string) in ("**", "//", ">>", "<<", "->", ":=", "==", "!=", "<=", ">=", "+=", "-=", "*=", "/=", "%=", "&=", "|=", "^=", "@=", "...", "<>"):
                    continue
                if (a.type == T.NUMBER and b.string == ".") or (a.string == "." and b.type == T.NUMBER):
                    continue
                spans.append((i, j, ""))
    return derive.replace_spans(text, spans) if spans else None


def redundant_parens(text, rng):
    """Parenthesise load-context expression operands (positions from the reference's AST)."""
    if "\r" in text:
        return None
    try:
        tree = ast.parse(text)
    except (SyntaxError, ValueError, RecursionError, MemoryError):
        return None
    lines = text.split("\n")
    starts = [0]
    for ln in lines:
        starts.append(starts[-1] + len(ln) + 1)

    def idx(line, col_bytes):
        ln = lines[line - 1]
        # col is in utf-8 bytes
        return starts[line - 1] + len(ln.encode("utf-8", "surrogatepass")[:col_bytes].decode("utf-8", "replace"))
    cands = []
    for parent in ast.walk(tree):
        for field, value in ast.iter_fields(parent):
            kids = value if isinstance(value, list) else [value]
            for n in kids:
                if not isinstance(n, ast.expr) or isinstance(n, (ast.Starred, ast.Slice, ast.JoinedStr, ast.FormattedValue)):
                    continue
                if isinstance(getattr(n, "ctx", None), (ast.Store, ast.Del)) and (isinstance(parent, (ast.NamedExpr, ast.AnnAssign)) or rng.random() < .5):
                    continue   # targets too (`for (x) in y`, `(a), (b) = c`, `del (x)`), except where the grammar forbids them
                if isinstance(parent, (ast.JoinedStr, ast.FormattedValue, ast.AnnAssign, ast.keyword)) and field in ("values", "format_spec", "target"):
                    continue
                if isinstance(parent, (ast.MatchValue, ast.MatchMapping, ast.MatchClass, ast.withitem, ast.Global, ast.Nonlocal, ast.ImportFrom)):
                    continue
                if isinstance(parent, (ast.FunctionDef, ast.AsyncFunctionDef, ast.ClassDef)) and field == "decorator_list":
                    continue
                if isinstance(parent, ast.Constant):
                    continue
                if isinstance(parent, ast.Expr) and isinstance(n, ast.Constant) and isinstance(n.value, str):
                    continue
                if isinstance(n, ast.GeneratorExp) and isinstance(parent, ast.Call) and len(parent.args) == 1 and not parent.keywords:
                    continue  # the reference's extent of a sole generator argument includes the call's parentheses
                if n.end_lineno is None:
                    continue
                cands.append(n)
    # exclude anything inside an f-string
    fspans = []
    for n in ast.walk(tree):
        if isinstance(n, ast.JoinedStr) and n.end_lineno is not None:
            fspans.append((idx(n.lineno, n.col_offset), idx(n.end_lineno, n.end_col_offset)))
    spans = []
    rng.shuffle(cands)
    taken = []
    for n in cands[:max(1, len(cands) // 6)]:
        s, e = idx(n.lineno, n.col_offset), idx(n.end_lineno, n.end_col_offset)
        if any(a <= s < b or a < e <= b for a, b in fspans):
            continue
        if any(not (e <= a or b <= s or (a <= s and e <= b and (a, b) != (s, e)) or (s <= a and b <= e and (a, b) != (s, e))) for a, b in taken):
            continue
        taken.append((s, e))
        op, cl = rng.choice([("(", ")"), ("( ", " )"), ("((", "))"), ("(\n", "\n)")])
        spans.append((s, s, op))
        spans.append((e, e, cl))
    if not spans:
        return None
    # nested insertions at identical offsets must keep open-before / close-after order
    out = []
    pieces = {}
    for s, e, rep in spans:
        pieces.setdefault(s, []).append(rep)
    res = []
    last = 0
    for pos in sorted(pieces):
        res.append(text[last:pos])
        reps = pieces[pos]
        res.append("".join(r for r in reps if r.strip().startswith(")")) + "".join(r for r in reps if not r.strip().startswith(")")))
        last = pos
    res.append(text[last:])
    return "".join(res)


def eof_whitespace(text, rng):
    """An unterminated whitespace-only last line (any width), or no final newline at all."""
    if not text.endswith("\n") or "\r" in text:
        return None
    k = rng.randrange(6)
    if k == 0:
        t = text[:-1]
        # dropping the final newline of a text that ends in a comment / continuation is still layout-only; the
        # reference-equality filter decides
        return t if t else None
    return text + rng.choice([" ", "  ", "   ", "    ", "        ", "\t", " \t" if False else "      ", "\x0c"])


def newline_style(text, rng, style=None):
    style = style or rng.choice(["crlf", "cr", "mixed"])
    if style == "crlf":
        return text.replace("\n", "\r\n")
    if style == "cr":
        return text.replace("\n", "\r")
    out = []
    for ch in text:
        if ch != "\n":
            out.append(ch)
            continue
        nl = rng.choice(["\n", "\r\n", "\r"])
        if nl == "\n" and out and out[-1] == "\r":
            nl = "\r\n"   # a lone CR followed by LF would read as one CRLF: two line breaks must stay two
        out.append(nl)
    return "".join(out)


REWRITES = {
    "trailing_blanks": trailing_blanks,
    "blank_comment_lines": blank_and_comment_lines,
    "eol_comments": eol_comments,
    "reindent": reindent,
    "form_feeds": form_feeds,
    "form_feeds_between_tokens": form_feeds_between_tokens,
    "backslash_joins": backslash_joins,
    "bracket_newlines": bracket_newlines,
    "token_spacing": spaces_between_tokens,
    "tight_spacing": tight_spacing,
    "continuation_then_blank_line": continuation_then_blank_line,
    "backslash_only_lines": backslash_only_lines,
    "redundant_parens": redundant_parens,
    "bom": bom,
    "eof_whitespace": eof_whitespace,
    "newline_style": newline_style,
}
# rewrites that need an LF-only, form-feed-free input come first in a composition
ORDER = ["redundant_parens", "reindent", "backslash_joins", "bracket_newlines", "token_spacing", "tight_spacing", "trailing_blanks", "blank_comment_lines",
         "eol_comments", "continuation_then_blank_line", "backslash_only_lines", "form_feeds_between_tokens", "form_feeds", "eof_whitespace", "bom", "newline_style"]


def compose(text, rng, k=None, names=None):
    """Apply a seeded composition of rewrites; returns (new_text, [names applied]) or (None, [])."""
    if names is None:
        k = k or rng.randint(1, 4)
        names = rng.sample(ORDER, k)
    names = sorted(names, key=ORDER.index)
    cur = text
    applied = []
    for n in names:
        new = REWRITES[n](cur, rng)
        if new is not None and new != cur:
            cur = new
            applied.append(n)
    if not applied:
        return None, []
    return cur, applied
