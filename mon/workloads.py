"""Workload sources: W1 realistic corpus discovery, committed corpus, helpers."""
import glob
import os
import sys
import sysconfig

from . import core

CORPUS_DIR = os.path.join(core.ROOT, "corpus")


def committed_corpus():
    return sorted(glob.glob(os.path.join(CORPUS_DIR, "*.py")))


_CACHE = {}


def stdlib_files():
    """Every *.py of the interpreter's own standard library (incl. its test suite) and site-packages found at run time."""
    if "stdlib" in _CACHE:
        return _CACHE["stdlib"]
    roots = []
    std = sysconfig.get_paths().get("stdlib")
    if std and os.path.isdir(std):
        roots.append(std)
    for extra in ("/usr/lib/python3.11", "/opt/veriftools/pyvenv/lib"):
        if os.path.isdir(extra) and extra not in roots:
            roots.append(extra)
    files = []
    seen = set()
    for r in roots:
        for d, dn, fn in os.walk(r):
            dn.sort()
            if "__pycache__" in d:
                continue
            for f in sorted(fn):
                if f.endswith(".py"):
                    p = os.path.join(d, f)
                    rp = os.path.realpath(p)
                    if rp not in seen:
                        seen.add(rp)
                        files.append(p)
    _CACHE["stdlib"] = files
    return files


def read_text(path, limit=400_000):
    try:
        with open(path, "rb") as f:
            b = f.read(limit + 1)
        if len(b) > limit:
            return None
        return b.decode("utf-8")
    except (OSError, UnicodeDecodeError):
        return None


def sample_files(seed, n, salt="files"):
    files = stdlib_files()
    rng = core.rng_for(seed, salt)
    files = list(files)
    rng.shuffle(files)
    return files[:n]
