#!/usr/bin/env python3
"""Regenerates MANIFEST.json from the table below (dev helper; MANIFEST.json is the committed artefact)."""
import json
import subprocess

HOOK_COMMITS = ["62329dc"]

CHECKS = {
    "C01": dict(
        technique="differential runtime oracle: parse() of the real build vs CPython 3.11 ast on corpus, grammar-directed generator, soft-keyword/operator rewrites and PEP 695 erasure programs; known-finding predicates on the disagreement",
        text="Every text the reference accepts (and that lies inside the property's quantifier) is parsed in module, interactive and expression "
             "mode and the canonical trees are compared field by field; evidence reports node kinds, soft-keyword placements and LR productions "
             "actually reduced (hook H1). Held-on-what-was-executed; never-reduced productions are listed.",
        note="Trusted: CPython 3.11 ast, the generic Debug->JSON converter, the thin normalisation in mon/pyref.py (validated on 5M library nodes), the PEP 695 erasure oracle (mon/pep695.py).",
        design="§2 C01"),
    "C02": dict(
        technique="runtime range monitors: structural range invariants + equality with CPython extents + slice-reparse (metamorphic) on every/sampled node of valid programs in hostile layouts",
        text="Three monitors over each successfully parsed valid program (all-nodes-with-ranges build): structural invariants of the range tree, "
             "equality with the reference's extents for positioned kinds, and slice-reparse of source[range] in a context template for all kinds "
             "(the oracle for arguments, with-items, match cases, comprehensions, type parameters). Programs are also rendered in CRLF/CR/BOM/"
             "continuation/comment/re-indented/parenthesised layouts.",
        note="Trusted: CPython positions (except inside f-string fields, where the reference's substring-search locator is arbitrated by slice-reparse), the context templates.",
        design="§2 C02"),
    "C03": dict(
        technique="in-process seeded mutation fuzzing under overflow-checks/debug-assertions + release builds with panic hook, error-offset and step-counter monitors (hook H2); pathological shapes with stack limits and a steps-per-byte scaling monitor; valgrind memcheck and Miri shards",
        text="Every execution (input x mode x start offset) is watched for panic, abort (dead process, bisected to the input), arithmetic overflow, "
             "unbounded token streams, error offsets outside [start, start+len] or off a character boundary, and logical step counts above a linear "
             "bound; 49 pathological families are run at depth 50/200 (2 MiB stack, checked build) and 250/1000 (8 MiB, release) as verdicts and at "
             "5000+ for information. Restated bounds: linear step bound instead of 'small polynomial'; explicit depth bounds for 'realistic nesting'.",
        note="Trusted: hook H2 counts every scanner / look-ahead / string-parser / reduce step; inputs near 4 GiB are out of reach (offset arithmetic near 2^32 is reached through start offsets).",
        design="§2 C03"),
    "C04": dict(
        technique="fault-injection style runtime oracle: catalogued single rule-violating edits of valid programs with expected error class and byte span known by construction; CPython as co-oracle for rejection",
        text="22 rule families (bracket mismatch/extra/unclosed, dedent to unknown level, tab/space ambiguity, tab after space, characters that cannot begin a token, stray backslash, "
             "malformed numbers, unterminated strings, bytes/text mixing, non-ASCII bytes, invalid escapes, duplicate parameter, default order, positional after keyword, unpacking "
             "after **, repeated keyword, bare *, parenthesised star, 'as _', malformed f-strings) are injected at seeded sites of corpus/generated programs and enumerated in five "
             "contexts; each edited text must be rejected with an error naming the rule at an offset inside the damaged construct. A run that never exercised a rule is inconclusive.",
        note="Trusted: the rule -> error-class table in mon/checks/c04.py (written from the public error enums); CPython must reject the edited text too except for the three documented earlier/stricter rules.",
        category="fault_enumeration",
        design="§2 C04"),
    "C05": dict(
        technique="invariant monitor over recorded token streams (ordering, bounds, gap language, spelling/value tables, bracket/indent state) in both lexer configurations; CPython tokenize as second opinion for comments and NL",
        text="For every text that lexes without error, every token of the default and the full-lexer build is checked against the source bytes: "
             "in-bounds, on character boundaries, ordered and disjoint, gaps only whitespace/comments/continuations, text spells the token (names, "
             "operators, keywords, number values, string prefix/quotes/inner text), NEWLINE only at depth 0, INDENT/DEDENT balanced and at logical "
             "line starts; full-lexer comments and non-logical newlines equal CPython tokenize's. A run that never saw some Tok variant is inconclusive.",
        note="Trusted: the spelling tables and gap regular expression in mon/checks/c05.py; CPython tokenize for comment/NL positions (LF-only texts).",
        design="§2 C05"),
    "C06": dict(
        technique="differential runtime oracle on literal-only modules (hundreds of literals per parse request) against CPython's decoded values; exhaustive escape space",
        text="All one-character escapes x 9 literal kinds, all octal and \\xHH escapes, all BMP \\u escapes (thorough), sampled \\U and \\N{name}, backslash-newline "
             "with LF/CR/CRLF, every prefix spelling x quote style, triple-quoted text, implicit concatenation, integers in every base with underscores and word-boundary "
             "magnitudes, floats from seeded bit patterns and long digit strings, imaginary literals: the Constant values (ints exact, floats by bits) must equal the reference's.",
        note="Trusted: CPython 3.11 literal decoding; lone surrogates are compared after the documented U+FFFD mapping.",
        design="§2 C06"),
    "C07": dict(
        technique="differential runtime oracle on generated and corpus f-strings (tree) + slice-reparse monitor for the ranges of expressions inside replacement fields",
        text="Generated f-string bodies (fields with arbitrary expressions, conversions, nested specs, '=' forms, doubled braces, escapes) in single/triple, raw/non-raw, "
             "concatenated forms, three newline styles and seven surrounding contexts, plus every f-string of the sampled library, are compared with the reference's "
             "JoinedStr decomposition; every expression under a replacement field must re-parse from source[range] to the same node (own text in the enclosing file).",
        note="Trusted: CPython 3.11 (pre-PEP 701) for the decomposition; for inner ranges the expression's own text (CPython's f-string locator uses substring search and is not used).",
        design="§2 C07"),
    "C08": dict(
        technique="metamorphic (relational) runtime monitor: parse(p) vs parse(p') for layout-only rewrites validated by the reference",
        text="Eleven layout rewrites (newline styles, trailing blanks, blank/comment lines, end-of-line comments, re-indentation incl. tabs, form feeds, BOM, backslash joins, "
             "line breaks inside brackets, token spacing, redundant parentheses) are applied singly and in seeded compositions of 2-5 to valid programs; a pair is used only "
             "if CPython gives both texts the same tree; acceptance and the tree modulo ranges (and AnnAssign.simple) must not change.",
        note="Trusted: CPython ast equality decides what is layout-only (a rewriter bug only reduces coverage).",
        design="§2 C08"),
    "C09": dict(
        technique="relational runtime monitor over all public entry points and start offsets on the same text (both range configurations)",
        text="For each text the harness runs parse, parse_starts_at, parse_tokens, Parse::{parse,parse_starts_at,parse_tokens} for Mod*/Suite/Stmt/Expr/Identifier/Constant, the "
             "55 typed parsers and the deprecated helpers at offset 0 and at offsets from {1,3,400,65535,2^31,2^32-1-len}, plus lex/lex_starts_at; results at k must equal "
             "results at 0 with every range and error offset moved by k, and every entry point must return the prescribed part of the module/expression tree.",
        note="Trusted: the relations written in mon/checks/c09.py are the ones the property states.",
        design="§2 C09"),
    "C10": dict(
        technique="relational runtime monitor across four feature builds of the same working tree",
        text="Every text is parsed by the default, full-lexer, all-nodes-with-ranges and num-bigint builds: acceptance, tree, mandatory ranges and errors must be equal "
             "(optional ranges erased, integers by decimal value); the full-lexer token stream minus comments/non-logical newlines must equal the default stream. Workload "
             "stresses comments, blank lines and continuations around soft-keyword statements and huge integer literals.",
        note="Trusted: the list of optional-range node kinds (read from ast/src/gen/generic.rs).",
        design="§2 C10"),
    "C11": dict(
        technique="in-process round-trip monitor (parse -> render -> parse -> render) over exhaustive operator pairs, constants, f-strings, generated and corpus expressions; valgrind over the pointer cast",
        text="All (parent form, operand position, child form) combinations over 50 x 70 forms, parenthesised and bare, plus constants (boundary and seeded doubles, huge ints, "
             "special-character strings/bytes, tuples), f-strings and expressions from generator and library: the rendering must be accepted, re-parse to the same tree "
             "modulo ranges/ctx, and be a fixed point.",
        note="Trusted: equality on the generic Debug dumps.",
        design="§2 C11"),
    "C12": dict(
        technique="runtime invariant monitors on hooked traversals: counting identity Fold, counting Visitor and ConstantOptimizer compared with an independent walk / reference rewrite of the generic tree dump",
        text="For every parsed tree (all-nodes-with-ranges build): the identity fold must reproduce the dump, the range callback must fire exactly once per range-carrying node "
             "(multiset of ranges), the default Visitor must reach every statement/expression/pattern/handler exactly once (multiset of kind+range), the optimiser's output must "
             "equal a bottom-up rewrite of the dump that folds only load-context all-constant tuples, and optimising twice changes nothing. A field-shape census shows which "
             "optional fields / list lengths occurred per node kind.",
        note="Trusted: the generic Debug dump as the independent walk; the 10-line reference rewrite.",
        design="§2 C12"),
    "C13": dict(
        technique="runtime differential monitors: located trees of both locators vs a naive line/column model (cross-checked against CPython lineno/col), linear vs indexed locator, error locations; primitive-level exhaustive offset pairs in-process",
        text="For every program (own layout and CR/CRLF/BOM/continuation/re-indented variants, mutations for error offsets, 40 directed programs whose tree order differs from source "
             "order) every located range of RandomLocator must equal the model; LinearLocator must return the same located tree (release and debug-assertion builds; its self-check "
             "panics are observations); locate_error must agree; at primitive level both locators are run on all non-decreasing offset pairs of all small texts.",
        note="Trusted: the 20-line model in mon/checks/c13.py (validated on every CPython-positioned node of the workload). Known-finding regions excuse only offsets inside (or, once the cursor has gone backwards, after) the recorded constructs.",
        design="§2 C13"),
    "C14": dict(
        technique="exhaustive small-scope runtime differential: every signature shape is converted by the real API and compared with the structure computed from the generator's description (unique integer defaults make the history unambiguous)",
        text="All signatures within stated bounds (posonly<=1(2), args<=2, vararg, kwonly<=3, kwarg, every legal default subset, annotations, def/lambda) "
             "go through to_/into_python_arguments, From, and back through into_arguments; positional order, names, annotations, kinds, each parameter's own "
             "default, and the documented keyword-only ordering are checked. Exhaustive within the bounds.",
        note="Trusted: the parser builds the per-parameter form correctly (checked against the generator's description first); default feature set only (conversion is todo!() under all-nodes-with-ranges).",
        design="§2 C14"),
    "C15": dict(
        technique="in-process invariant monitor against a naive reference model, exhaustive small scope + seeded random",
        text="Every query of the line index, source-code view, universal-newline iterators (all next/next_back interleavings) and "
             "TextRange algebra is compared with a character-by-character model on all texts over {LF,CR,a,é,𝄞,BOM} up to length 6 "
             "(7 thorough) and seeded random texts; held-on-what-was-executed, exhaustive within the stated scope.",
        note="Trusted: the 60-line naive model in harness/src/ops_pos.rs; overflow-checks/debug-assertions build of the repo crates.",
        design="§2 C15"),
    "C16": dict(
        technique="differential + round-trip runtime oracle (Python repr / literal_eval, the parser's own Constant::parse), exhaustive small scope; valgrind (and Miri in thorough) over the unchecked fast path",
        text="Every value is rendered by the escaping helpers in all quote modes; the result must be valid UTF-8, evaluate back to the value under Python and under this "
             "parser, use Python's quote choice, have the body length the precomputed layout announced, keep `changed()` consistent, and equal Python's repr for bytes "
             "and for Unicode-version-independent text. Exhaustive for byte strings of length <= 2 and single code points in thorough.",
        note="Trusted: Python 3.11 repr/literal_eval; version independence decided mechanically (unicodedata.ucd_3_2_0 vs current table).",
        design="§2 C16"),
    "C17": dict(
        technique="differential runtime oracle against Python float()/repr/float.hex/fromhex/% formatting over directed and seeded doubles and an exhaustive small string alphabet",
        text="to_string is checked for exact round trip (by Python and by parse_str), shortest digit count and Python's shape; parse_str/parse_bytes for equal accept/reject and "
             "bit-identical results on ASCII input; to_hex/from_hex against float.hex/fromhex and for round trip; format_fixed/exponent/general against '%.*f/e/g' incl. '#', both cases, precisions 0..20.",
        note="Trusted: CPython's correctly rounded conversions. Digits of to_string may differ from repr when equally short (allowed by the statement).",
        design="§2 C17"),
    "C18": dict(
        technique="differential runtime oracle against Python format() over a mini-language grid and malformed specifications; outcome kinds text/error/panic; root-cause predicates for known findings",
        text="FormatSpec::parse + format_int/float/string/bool are executed on (spec, value) pairs drawn from the format mini-language (all fields, all 16 types) plus malformed "
             "strings, with ints beyond 64 bit, doubles incl. specials, multi-byte strings and booleans; text, error and panic outcomes are compared with Python's. "
             "About a fifth of the grid deviates on the pinned tree: every deviation must match one of 16 recorded root-cause predicates or it is a violation.",
        note="Trusted: Python 3.11 format() in the C locale. The root-cause predicates are broad (field-level), so a change confined to an already deviating region can hide.",
        design="§2 C18"),
    "C19": dict(
        technique="differential runtime oracle against Python's % operator (text and bytes), structured and malformed templates; valgrind shard",
        text="Templates with 1-3 specifiers (mapping keys with nested parentheses, repeated flags, width/precision incl. '*', length modifiers, all conversions) are parsed "
             "and each specifier formatted by the crate with ints, doubles, strings, characters and byte strings; outputs, mapping keys, rejection category and the "
             "character index of unsupported-format errors are compared with Python's. Malformed templates are probed with an argument count Python accepts.",
        note="Trusted: Python 3.11 %-formatting; the 40-line driver in harness/src/ops_fmt.rs (one argument per specifier, int->float/str/chr as an interpreter would).",
        design="§2 C19"),
    "C20": dict(
        technique="differential runtime oracle against _string.formatter_parser / formatter_field_name_split, exhaustive small alphabet",
        text="Every string over {{ } [ ] ! : . 0 a é} up to length 5 (6 thorough), random and structured templates are split by FormatString::from_str and compared "
             "(literals with doubled braces unescaped and adjacent literals merged; field name, conversion, spec); FieldName::parse is compared with Python's splitter.",
        note="Trusted: CPython's _string module. Templates whose spec nests braces deeper than one level are outside the statement and skipped (counted).",
        design="§2 C20"),
}

PENDING = {}
for i in range(1, 21):
    pid = "C%02d" % i
    if pid not in CHECKS:
        PENDING[pid] = "monitor for this property is not built yet in this revision (see DESIGN.md §6 order of construction)"


def main():
    checks = []
    for pid, c in sorted(CHECKS.items()):
        checks.append({
            "property_id": pid,
            "quick_cmd": "python3 -m mon check %s --tier quick" % pid,
            "thorough_cmd": "python3 -m mon check %s --tier thorough" % pid,
            "evidence_file": "/verif/evidence/%s.json" % pid,
            "replay_cmd_template": "python3 -m mon replay {path}",
            "engine": "mon",
            "level_claimed": {"category": c.get("category", "exploration"), "text": c["text"], "design_ref": c["design"]},
            "level_note": c["note"],
            "technique": c["technique"],
        })
    m = {
        "version": 1,
        "setup_cmd": "python3 -m mon setup",
        "hooks": {
            "guard": "--cfg rustpython_parser_verif",
            "enable": "RUSTFLAGS='--cfg rustpython_parser_verif' set by mon/core.py for every harness build (cargo build --offline in /verif/harness, path deps on /repo crates)",
            "baseline_off_cmd": "cd /repo && cargo test --workspace --no-fail-fast --offline",
            "source_commits": HOOK_COMMITS,
            "add_only": True,
        },
        "engines": [{
            "name": "mon",
            "path": "/verif/mon",
            "serves_properties": sorted(CHECKS),
            "kind_free_text": "python3 orchestrator (workloads, CPython 3.11 reference oracles, monitors, verdicts) driving the Rust harness /verif/harness (vh) built against /repo's working tree in several feature/profile variants; Miri and valgrind shards for the unsafe sites",
        }],
        "checks": checks,
        "notes": "Runtime monitoring only: every verdict is 'held on the executions observed'. Exit 0 held, 1 violation (VIOLATION line), 3 inconclusive (never folded into held/violated). known_findings.json lists genuine defects recorded rather than repaired.",
        "not_applicable": [{"property_id": p, "reason": r} for p, r in sorted(PENDING.items())],
    }
    with open("/verif/MANIFEST.json", "w") as f:
        json.dump(m, f, indent=1)
    print("wrote MANIFEST.json with %d checks, %d pending" % (len(checks), len(PENDING)))


if __name__ == "__main__":
    main()
