//! C18 / C19 / C20: format-spec, printf-style and str.format template ops.
//! Batch ops: one request per payload line (tab-separated, hex-encoded text),
//! one reply line per request.
use crate::util::{dump, guard, hex, unhex};
use rustpython_format::cformat::{
    CConversionFlags, CFormatBytes, CFormatPart, CFormatPrecision, CFormatQuantity, CFormatSpec,
    CFormatString, CFormatType,
};
use rustpython_ast::bigint::BigInt;
use rustpython_format::{CharLen, FieldName, FormatSpec, FormatString, FromTemplate};
use std::str::FromStr;

struct S<'a>(&'a str);
impl CharLen for S<'_> {
    fn char_len(&self) -> usize {
        self.0.chars().count()
    }
}
impl std::ops::Deref for S<'_> {
    type Target = str;
    fn deref(&self) -> &str {
        self.0
    }
}

fn text(h: &str) -> String {
    String::from_utf8_lossy(&unhex(h)).into_owned()
}

fn batch(payload: &[u8], f: impl Fn(Vec<String>) -> String + Copy + std::panic::UnwindSafe) -> String {
    let t = String::from_utf8_lossy(payload);
    let mut out = String::new();
    for line in t.lines() {
        let fields: Vec<String> = line.split('\t').map(|s| s.to_string()).collect();
        match guard(move || f(fields)) {
            Ok(s) => out.push_str(&s),
            Err(p) => {
                out.push_str("PANIC\t");
                out.push_str(&p);
            }
        }
        out.push('\n');
    }
    out
}

/// line: `<spec-hex>\t<kind>\t<value>`; kind int (decimal) | float (bits) | str (hex) | bool (0/1)
pub fn op_fmt(_args: &[&str], payload: &[u8]) -> String {
    batch(payload, |f| {
        let spec_text = text(&f[0]);
        let spec = match FormatSpec::parse(&spec_text) {
            Ok(s) => s,
            Err(e) => return format!("PARSEERR\t{:?}", e),
        };
        let r = match f[1].as_str() {
            "int" => spec.format_int(&BigInt::from_str(&f[2]).unwrap()),
            "float" => spec.format_float(f64::from_bits(f[2].parse().unwrap())),
            "str" => {
                let s = text(&f[2]);
                spec.format_string(&S(&s))
            }
            "bool" => spec.format_bool(f[2] == "1"),
            _ => return "BADKIND".into(),
        };
        match r {
            Ok(s) => format!("OK\t{}", hex(s.as_bytes())),
            Err(e) => format!("ERR\t{:?}", e),
        }
    })
}

enum Arg {
    Int(BigInt),
    Float(f64),
    Str(String),
    Bytes(Vec<u8>),
}

fn parse_arg(s: &str) -> Option<Arg> {
    let (k, v) = s.split_once(':')?;
    Some(match k {
        "i" => Arg::Int(BigInt::from_str(v).ok()?),
        "f" => Arg::Float(f64::from_bits(v.parse().ok()?)),
        "s" => Arg::Str(text(v)),
        "y" => Arg::Bytes(unhex(v)),
        _ => return None,
    })
}

/// Substitute `*` width / precision from the argument list, as an interpreter does.
fn resolve_stars(spec: &mut CFormatSpec, args: &mut std::vec::IntoIter<Arg>) -> Result<(), String> {
    if let Some(CFormatQuantity::FromValuesTuple) = spec.min_field_width {
        match args.next() {
            Some(Arg::Int(i)) => {
                let v: i64 = i.to_string().parse().map_err(|_| "STARBIG".to_string())?;
                if v < 0 {
                    spec.flags |= CConversionFlags::LEFT_ADJUST;
                }
                spec.min_field_width = Some(CFormatQuantity::Amount(v.unsigned_abs() as usize));
            }
            _ => return Err("STARARG".into()),
        }
    }
    if let Some(CFormatPrecision::Quantity(CFormatQuantity::FromValuesTuple)) = spec.precision {
        match args.next() {
            Some(Arg::Int(i)) => {
                let v: i64 = i.to_string().parse().map_err(|_| "STARBIG".to_string())?;
                spec.precision = Some(CFormatPrecision::Quantity(CFormatQuantity::Amount(v.max(0) as usize)));
            }
            _ => return Err("STARARG".into()),
        }
    }
    Ok(())
}

fn format_one(spec: &CFormatSpec, arg: Arg, bytes_mode: bool) -> Result<Vec<u8>, String> {
    Ok(match (&spec.format_type, arg) {
        (CFormatType::Number(_), Arg::Int(i)) => spec.format_number(&i).into_bytes(),
        (CFormatType::Float(_), Arg::Float(f)) => spec.format_float(f).into_bytes(),
        // what an interpreter does for an int argument: float(i), str(i), chr(i)
        (CFormatType::Float(_), Arg::Int(i)) => spec.format_float(i.to_string().parse::<f64>().map_err(|_| "INTFLOAT")?).into_bytes(),
        (CFormatType::String(_), Arg::Int(i)) if !bytes_mode => spec.format_string(i.to_string()).into_bytes(),
        (CFormatType::Character, Arg::Int(i)) if !bytes_mode => {
            let c = i.to_string().parse::<u32>().ok().and_then(char::from_u32).ok_or("BADCHAR")?;
            spec.format_char(c).into_bytes()
        }
        (CFormatType::String(_), Arg::Str(s)) if !bytes_mode => spec.format_string(s).into_bytes(),
        (CFormatType::String(_), Arg::Bytes(b)) if bytes_mode => spec.format_bytes(&b),
        (CFormatType::Character, Arg::Str(s)) if !bytes_mode => {
            spec.format_char(s.chars().next().ok_or("EMPTYCHAR")?).into_bytes()
        }
        (CFormatType::Character, Arg::Bytes(b)) if bytes_mode => spec.format_bytes(&b[..1.min(b.len())]),
        _ => return Err("TYPEMISMATCH".into()),
    })
}

fn lit_bytes(s: &Vec<u8>) -> &[u8] {
    s.as_slice()
}
fn lit_str(s: &String) -> &[u8] {
    s.as_bytes()
}

/// line: `<t|b>\t<template-hex>\t<arg>*` with args `i:<dec>` `f:<bits>` `s:<hex>` `y:<hex>`
pub fn op_cfmt(_args: &[&str], payload: &[u8]) -> String {
    batch(payload, |f| {
        let bytes_mode = f[0] == "b";
        let raw = unhex(&f[1]);
        let args: Option<Vec<Arg>> = f[2..].iter().filter(|s| !s.is_empty()).map(|s| parse_arg(s)).collect();
        let Some(args) = args else { return "BADARG".into() };
        let mut args = args.into_iter();
        let mut out: Vec<u8> = Vec::new();
        let parts_dump;
        macro_rules! drive {
            ($t:expr, $lit:expr) => {{
                let mut t = $t;
                parts_dump = dump(&t);
                for (_, p) in t.iter_mut() {
                    match p {
                        CFormatPart::Literal(s) => out.extend_from_slice($lit(s)),
                        CFormatPart::Spec(sp) => {
                            if let Err(e) = resolve_stars(sp, &mut args) {
                                return e;
                            }
                            let Some(a) = args.next() else { return format!("NOTENOUGH\t{}", hex(parts_dump.as_bytes())) };
                            match format_one(sp, a, bytes_mode) {
                                Ok(b) => out.extend_from_slice(&b),
                                Err(e) => return e,
                            }
                        }
                    }
                }
            }};
        }
        if bytes_mode {
            match CFormatBytes::parse_from_bytes(&raw) {
                Ok(t) => drive!(t, lit_bytes),
                Err(e) => return format!("PARSEERR\t{:?}\t{}\t{}", e.typ, e.index, hex(e.to_string().as_bytes())),
            }
        } else {
            let Ok(s) = String::from_utf8(raw) else { return "BADINPUT".into() };
            match CFormatString::from_str(&s) {
                Ok(t) => drive!(t, lit_str),
                Err(e) => return format!("PARSEERR\t{:?}\t{}\t{}", e.typ, e.index, hex(e.to_string().as_bytes())),
            }
        }
        let left = args.count();
        format!("OK\t{}\t{}\t{}", hex(&out), left, hex(parts_dump.as_bytes()))
    })
}

/// line: `t\t<hex>` (FormatString::from_str) | `f\t<hex>` (FieldName::parse)
pub fn op_tmpl(_args: &[&str], payload: &[u8]) -> String {
    batch(payload, |f| {
        let s = text(&f[1]);
        match f[0].as_str() {
            "t" => match FormatString::from_str(&s) {
                Ok(t) => format!("OK\t{}", dump(&t.format_parts)),
                Err(e) => format!("ERR\t{:?}", e),
            },
            _ => match FieldName::parse(&s) {
                Ok(t) => format!("OK\t{{\"first\":{},\"rest\":{}}}", dump(&t.field_type), dump(&t.parts)),
                Err(e) => format!("ERR\t{:?}", e),
            },
        }
    })
}
