//! Operations on token streams and trees: parse, lex, entry points, unparse,
//! fold/visitor, locators, argument conversions, hook statistics.
use crate::util::{dump, guard, guard_str, jstr, kind_of};
use rustpython_ast::{self as ast, fold::Fold, Ranged, Visitor};
use rustpython_parser::{
    lexer::{lex, lex_starts_at, LexResult},
    parse, parse_starts_at, parse_tokens,
    source_code::{LinearLocator, RandomLocator},
    text_size::{TextRange, TextSize},
    Mode, Parse, ParseError,
};

pub fn mode_of(s: &str) -> Mode {
    match s {
        "eval" => Mode::Expression,
        "single" => Mode::Interactive,
        _ => Mode::Module,
    }
}

fn src_of(payload: &[u8]) -> Result<&str, String> {
    std::str::from_utf8(payload).map_err(|_| "{\"bad_utf8\":true}".to_string())
}

fn steps_json(before: [u64; 8]) -> String {
    let after = rustpython_parser::verif::steps();
    let d: Vec<String> = (0..5).map(|i| (after[i] - before[i]).to_string()).collect();
    format!("[{}]", d.join(","))
}

pub fn err_json(e: &ParseError) -> String {
    format!(
        "{{\"err\":{},\"kind\":{},\"offset\":{},\"disp\":{},\"ie\":{},\"te\":{}}}",
        jstr(&format!("{:?}", e.error)),
        jstr(&kind_of(&e.error)),
        u32::from(e.offset),
        jstr(&e.error.to_string()),
        e.error.is_indentation_error(),
        e.error.is_tab_error()
    )
}

fn res_json<T: std::fmt::Debug>(r: &Result<T, ParseError>) -> String {
    match r {
        Ok(m) => format!("{{\"ok\":{}}}", dump(m)),
        Err(e) => err_json(e),
    }
}

/// `parse <mode> <offset>` — `parse_starts_at`.
pub fn op_parse(args: &[&str], payload: &[u8]) -> String {
    let src = match src_of(payload) {
        Ok(s) => s,
        Err(e) => return e,
    };
    let mode = mode_of(args.first().copied().unwrap_or("exec"));
    let off: u32 = args.get(1).and_then(|s| s.parse().ok()).unwrap_or(0);
    let before = rustpython_parser::verif::steps();
    let nodump = args.iter().any(|a| *a == "nodump");
    let r = guard(|| {
        if off == 0 && !args.iter().any(|a| *a == "starts_at") {
            parse(src, mode, "<vh>")
        } else {
            parse_starts_at(src, mode, "<vh>", TextSize::from(off))
        }
    });
    let steps = steps_json(before);
    match r {
        Ok(r) => {
            let mut s = if nodump && r.is_ok() { drop(r); "{\"ok\":null}".to_string() } else { res_json(&r) };
            s.pop();
            format!("{},\"steps\":{}}}", s, steps)
        }
        Err(p) => p,
    }
}

fn tok_json(r: &LexResult) -> String {
    match r {
        Ok((tok, range)) => format!(
            "[{},{},{},{}]",
            jstr(&kind_of(tok)),
            u32::from(range.start()),
            u32::from(range.end()),
            dump(tok)
        ),
        Err(e) => format!(
            "{{\"err\":{},\"kind\":{},\"offset\":{}}}",
            jstr(&format!("{:?}", e.error)),
            jstr(&kind_of(&e.error)),
            u32::from(e.location)
        ),
    }
}

/// `lex <mode> <offset> [cap]` — tokens up to and including the first error.
pub fn op_lex(args: &[&str], payload: &[u8]) -> String {
    let src = match src_of(payload) {
        Ok(s) => s,
        Err(e) => return e,
    };
    let mode = mode_of(args.first().copied().unwrap_or("exec"));
    let off: u32 = args.get(1).and_then(|s| s.parse().ok()).unwrap_or(0);
    let cap: usize = args
        .get(2)
        .and_then(|s| s.parse().ok())
        .unwrap_or(4 * src.len() + 64);
    let before = rustpython_parser::verif::steps();
    let r = guard(|| {
        let mut out = String::from("[");
        let mut n = 0usize;
        let mut capped = false;
        let mut err = String::from("null");
        let it: Box<dyn Iterator<Item = LexResult>> = if off == 0 {
            Box::new(lex(src, mode))
        } else {
            Box::new(lex_starts_at(src, mode, TextSize::from(off)))
        };
        for t in it {
            if n >= cap {
                capped = true;
                break;
            }
            if t.is_err() {
                err = tok_json(&t);
                n += 1;
                break;
            }
            if n > 0 {
                out.push(',');
            }
            out.push_str(&tok_json(&t));
            n += 1;
        }
        out.push(']');
        (out, n, capped, err)
    });
    let steps = steps_json(before);
    match r {
        Ok((toks, n, capped, err)) => format!(
            "{{\"toks\":{},\"n\":{},\"capped\":{},\"err\":{},\"steps\":{}}}",
            toks, n, capped, err, steps
        ),
        Err(p) => p,
    }
}

macro_rules! typed_parsers {
    ($out:ident, $src:ident, $off:ident, $($t:ident)*) => {
        $(
            {
                let r = guard(|| <ast::$t as Parse>::parse_starts_at($src, "<vh>", TextSize::from($off)));
                $out.push((concat!("typed:", stringify!($t)).to_string(), match r { Ok(r) => res_json(&r), Err(p) => p }));
            }
        )*
    };
}

/// `entry <offset>` — every public entry point on one text.
pub fn op_entry(args: &[&str], payload: &[u8]) -> String {
    let src = match src_of(payload) {
        Ok(s) => s,
        Err(e) => return e,
    };
    let off: u32 = args.first().and_then(|s| s.parse().ok()).unwrap_or(0);
    let o = TextSize::from(off);
    let mut out: Vec<(String, String)> = Vec::new();
    macro_rules! ent {
        ($name:expr, $e:expr) => {{
            let r = guard(|| $e);
            out.push((
                $name.to_string(),
                match r {
                    Ok(r) => res_json(&r),
                    Err(p) => p,
                },
            ));
        }};
    }
    for (mname, mode) in [
        ("exec", Mode::Module),
        ("single", Mode::Interactive),
        ("eval", Mode::Expression),
    ] {
        ent!(format!("parse_starts_at:{mname}"), parse_starts_at(src, mode, "<vh>", o));
        ent!(
            format!("parse_tokens:{mname}"),
            parse_tokens(lex_starts_at(src, mode, o), mode, "<vh>")
        );
        if off == 0 {
            ent!(format!("parse:{mname}"), parse(src, mode, "<vh>"));
            ent!(format!("parse_tokens_lex:{mname}"), parse_tokens(lex(src, mode), mode, "<vh>"));
        }
    }
    ent!("ModModule", ast::ModModule::parse_starts_at(src, "<vh>", o));
    ent!("ModInteractive", ast::ModInteractive::parse_starts_at(src, "<vh>", o));
    ent!("ModExpression", ast::ModExpression::parse_starts_at(src, "<vh>", o));
    ent!("Suite", ast::Suite::parse_starts_at(src, "<vh>", o));
    ent!("Stmt", ast::Stmt::parse_starts_at(src, "<vh>", o));
    ent!("Expr", ast::Expr::parse_starts_at(src, "<vh>", o));
    ent!("Identifier", ast::Identifier::parse_starts_at(src, "<vh>", o));
    ent!("Constant", ast::Constant::parse_starts_at(src, "<vh>", o));
    ent!(
        "Suite.parse_tokens",
        ast::Suite::parse_tokens(ast::Suite::lex_starts_at(src, o), "<vh>")
    );
    ent!(
        "Expr.parse_tokens",
        ast::Expr::parse_tokens(ast::Expr::lex_starts_at(src, o), "<vh>")
    );
    if off == 0 {
        ent!("Suite.parse", ast::Suite::parse(src, "<vh>"));
        ent!("Stmt.parse", ast::Stmt::parse(src, "<vh>"));
        ent!("Expr.parse", ast::Expr::parse(src, "<vh>"));
        ent!("Expr.parse_without_path", ast::Expr::parse_without_path(src));
        #[allow(deprecated)]
        {
            ent!("parse_program", rustpython_parser::parse_program(src, "<vh>"));
            ent!("parse_expression", rustpython_parser::parse_expression(src, "<vh>"));
        }
    }
    #[allow(deprecated)]
    {
        ent!(
            "parse_expression_starts_at",
            rustpython_parser::parse_expression_starts_at(src, "<vh>", o)
        );
    }
    typed_parsers!(out, src, off,
        StmtFunctionDef StmtAsyncFunctionDef StmtClassDef StmtReturn StmtDelete StmtAssign StmtTypeAlias
        StmtAugAssign StmtAnnAssign StmtFor StmtAsyncFor StmtWhile StmtIf StmtWith StmtAsyncWith StmtMatch
        StmtRaise StmtTry StmtTryStar StmtAssert StmtImport StmtImportFrom StmtGlobal StmtNonlocal StmtExpr
        StmtPass StmtBreak StmtContinue ExprBoolOp ExprNamedExpr ExprBinOp ExprUnaryOp ExprLambda ExprIfExp
        ExprDict ExprSet ExprListComp ExprSetComp ExprDictComp ExprGeneratorExp ExprAwait ExprYield
        ExprYieldFrom ExprCompare ExprCall ExprFormattedValue ExprJoinedStr ExprConstant ExprAttribute
        ExprSubscript ExprStarred ExprName ExprList ExprTuple ExprSlice
    );
    let body: Vec<String> = out
        .iter()
        .map(|(k, v)| format!("{}:{}", jstr(k), v))
        .collect();
    format!("{{{}}}", body.join(","))
}

/// `mode` — `Mode::from_str` on the payload.
pub fn op_mode(_args: &[&str], payload: &[u8]) -> String {
    let s = String::from_utf8_lossy(payload);
    match s.parse::<Mode>() {
        Ok(Mode::Module) => "\"Module\"".into(),
        Ok(Mode::Interactive) => "\"Interactive\"".into(),
        Ok(Mode::Expression) => "\"Expression\"".into(),
        Err(e) => format!("{{\"err\":{}}}", jstr(&e.to_string())),
    }
}

/// `unparse` — Expr::parse → to_string → Expr::parse → to_string.
pub fn op_unparse(_args: &[&str], payload: &[u8]) -> String {
    let src = match src_of(payload) {
        Ok(s) => s,
        Err(e) => return e,
    };
    guard_str(|| {
        let e1 = match ast::Expr::parse(src, "<vh>") {
            Ok(e) => e,
            Err(e) => return format!("{{\"err0\":{}}}", err_json(&e)),
        };
        let t1 = e1.to_string();
        let e2 = match ast::Expr::parse(&t1, "<vh>") {
            Ok(e) => e,
            Err(e) => {
                return format!("{{\"err1\":{},\"t1\":{}}}", err_json(&e), jstr(&t1));
            }
        };
        let t2 = e2.to_string();
        format!(
            "{{\"t1\":{},\"t2\":{},\"e1\":{},\"e2\":{}}}",
            jstr(&t1),
            jstr(&t2),
            dump(&e1),
            dump(&e2)
        )
    })
}

struct CountingFold {
    ranges: Vec<(u32, u32)>,
    will: usize,
}
impl Fold<TextRange> for CountingFold {
    type TargetU = TextRange;
    type Error = std::convert::Infallible;
    type UserContext = ();
    fn will_map_user(&mut self, _user: &TextRange) -> Self::UserContext {
        self.will += 1;
    }
    fn map_user(&mut self, user: TextRange, _c: ()) -> Result<TextRange, Self::Error> {
        self.ranges.push((user.start().into(), user.end().into()));
        Ok(user)
    }
}

/// A folder whose range callback fails at its k-th invocation: the fold must then return that error (a fold that
/// returns Ok has dropped the failing child, or swallowed the error).
struct FailingFold {
    calls: usize,
    fail_at: usize,
}
impl Fold<TextRange> for FailingFold {
    type TargetU = TextRange;
    type Error = usize;
    type UserContext = ();
    fn will_map_user(&mut self, _user: &TextRange) -> Self::UserContext {}
    fn map_user(&mut self, user: TextRange, _c: ()) -> Result<TextRange, Self::Error> {
        let k = self.calls;
        self.calls += 1;
        if k == self.fail_at {
            Err(k)
        } else {
            Ok(user)
        }
    }
}

#[derive(Default)]
struct CountingVisitor {
    seen: Vec<(char, String, u32, u32)>,
}
impl Visitor for CountingVisitor {
    fn visit_stmt(&mut self, node: ast::Stmt) {
        let r = node.range();
        self.seen.push(('s', kind_of(&node), r.start().into(), r.end().into()));
        self.generic_visit_stmt(node)
    }
    fn visit_expr(&mut self, node: ast::Expr) {
        let r = node.range();
        self.seen.push(('e', kind_of(&node), r.start().into(), r.end().into()));
        self.generic_visit_expr(node)
    }
    fn visit_pattern(&mut self, node: ast::Pattern) {
        let r = node.range();
        self.seen.push(('p', kind_of(&node), r.start().into(), r.end().into()));
        self.generic_visit_pattern(node)
    }
    fn visit_excepthandler(&mut self, node: ast::ExceptHandler) {
        let r = node.range();
        self.seen.push(('h', kind_of(&node), r.start().into(), r.end().into()));
        self.generic_visit_excepthandler(node)
    }
}

/// The same counting visitor with the hooks of the product nodes (whose default bodies are empty) filled in by hand, the way a
/// user of the trait has to: through them the walk reaches the patterns, clause parts, parameters and keyword values, and the
/// generated visit methods *below* those (pattern kinds, mapping keys, class-pattern arguments ...) become observable.
#[derive(Default)]
struct DeepVisitor {
    seen: Vec<(char, String, u32, u32)>,
}
impl DeepVisitor {
    fn arg_with_default(&mut self, a: ast::ArgWithDefault) {
        self.visit_arg(a.def);
        if let Some(d) = a.default {
            self.visit_expr(*d);
        }
    }
}
impl Visitor for DeepVisitor {
    fn visit_stmt(&mut self, node: ast::Stmt) {
        let r = node.range();
        self.seen.push(('s', kind_of(&node), r.start().into(), r.end().into()));
        self.generic_visit_stmt(node)
    }
    fn visit_expr(&mut self, node: ast::Expr) {
        let r = node.range();
        self.seen.push(('e', kind_of(&node), r.start().into(), r.end().into()));
        self.generic_visit_expr(node)
    }
    fn visit_pattern(&mut self, node: ast::Pattern) {
        let r = node.range();
        self.seen.push(('p', kind_of(&node), r.start().into(), r.end().into()));
        self.generic_visit_pattern(node)
    }
    fn visit_excepthandler(&mut self, node: ast::ExceptHandler) {
        let r = node.range();
        self.seen.push(('h', kind_of(&node), r.start().into(), r.end().into()));
        self.generic_visit_excepthandler(node)
    }
    fn visit_match_case(&mut self, node: ast::MatchCase) {
        self.visit_pattern(node.pattern);
        if let Some(g) = node.guard {
            self.visit_expr(*g);
        }
        for s in node.body {
            self.visit_stmt(s);
        }
    }
    fn visit_comprehension(&mut self, node: ast::Comprehension) {
        self.visit_expr(node.target);
        self.visit_expr(node.iter);
        for e in node.ifs {
            self.visit_expr(e);
        }
    }
    fn visit_arguments(&mut self, node: ast::Arguments) {
        for a in node.posonlyargs {
            self.arg_with_default(a);
        }
        for a in node.args {
            self.arg_with_default(a);
        }
        if let Some(a) = node.vararg {
            self.visit_arg(*a);
        }
        for a in node.kwonlyargs {
            self.arg_with_default(a);
        }
        if let Some(a) = node.kwarg {
            self.visit_arg(*a);
        }
    }
    fn visit_arg(&mut self, node: ast::Arg) {
        if let Some(a) = node.annotation {
            self.visit_expr(*a);
        }
    }
    fn visit_keyword(&mut self, node: ast::Keyword) {
        self.visit_expr(node.value);
    }
    fn visit_withitem(&mut self, node: ast::WithItem) {
        self.visit_expr(node.context_expr);
        if let Some(v) = node.optional_vars {
            self.visit_expr(*v);
        }
    }
}

/// `foldvisit <mode>` — identity fold with counting callback, counting
/// Visitor, ConstantOptimizer once and twice.
pub fn op_foldvisit(args: &[&str], payload: &[u8]) -> String {
    let src = match src_of(payload) {
        Ok(s) => s,
        Err(e) => return e,
    };
    let mode = mode_of(args.first().copied().unwrap_or("exec"));
    let m = match guard(|| parse(src, mode, "<vh>")) {
        Ok(Ok(m)) => m,
        Ok(Err(e)) => return err_json(&e),
        Err(p) => return p,
    };
    let orig = dump(&m);
    let mut out = format!("{{\"tree\":{}", orig);
    // identity fold
    let m1 = m.clone();
    let r = guard(move || {
        let mut f = CountingFold { ranges: Vec::new(), will: 0 };
        let folded = f.fold_mod(m1).unwrap();
        (dump(&folded), f.ranges, f.will)
    });
    match r {
        Ok((d, ranges, will)) => {
            let rs: Vec<String> = ranges.iter().map(|(a, b)| format!("[{},{}]", a, b)).collect();
            if d == orig {
                out.push_str(",\"fold_equal\":true");
            } else {
                out.push_str(&format!(",\"fold_equal\":false,\"folded\":{}", d));
            }
            out.push_str(&format!(",\"fold_ranges\":[{}],\"fold_will\":{}", rs.join(","), will));
        }
        Err(p) => out.push_str(&format!(",\"fold_panic\":{}", p)),
    }
    // error injection: the callback fails at its k-th call, for every k (small trees only: quadratic)
    let m3 = m.clone();
    let r = guard(move || {
        let mut f = CountingFold { ranges: Vec::new(), will: 0 };
        let _ = f.fold_mod(m3.clone());
        let n = f.ranges.len();
        let mut swallowed: Vec<usize> = Vec::new();
        if n <= 400 {
            for k in 0..n {
                let mut ff = FailingFold { calls: 0, fail_at: k };
                match ff.fold_mod(m3.clone()) {
                    Err(e) if e == k => {}
                    _ => swallowed.push(k),
                }
            }
        }
        (n, swallowed)
    });
    match r {
        Ok((n, sw)) => {
            let ks: Vec<String> = sw.iter().map(|k| k.to_string()).collect();
            out.push_str(&format!(",\"fail_points\":{},\"fail_swallowed\":[{}]", if n <= 400 { n } else { 0 }, ks.join(",")));
        }
        Err(p) => out.push_str(&format!(",\"fail_panic\":{}", p)),
    }
    // visitor
    let m2 = m.clone();
    let r = guard(move || {
        let mut v = CountingVisitor::default();
        match m2 {
            ast::Mod::Module(x) => {
                for s in x.body {
                    v.visit_stmt(s)
                }
            }
            ast::Mod::Interactive(x) => {
                for s in x.body {
                    v.visit_stmt(s)
                }
            }
            ast::Mod::Expression(x) => v.visit_expr(*x.body),
            ast::Mod::FunctionType(_) => {}
        }
        v.seen
    });
    match r {
        Ok(seen) => {
            let rs: Vec<String> = seen
                .iter()
                .map(|(c, k, a, b)| format!("[\"{}\",{},{},{}]", c, jstr(k), a, b))
                .collect();
            out.push_str(&format!(",\"visited\":[{}]", rs.join(",")));
        }
        Err(p) => out.push_str(&format!(",\"visit_panic\":{}", p)),
    }
    let m4 = m.clone();
    let r = guard(move || {
        let mut v = DeepVisitor::default();
        match m4 {
            ast::Mod::Module(x) => {
                for s in x.body {
                    v.visit_stmt(s)
                }
            }
            ast::Mod::Interactive(x) => {
                for s in x.body {
                    v.visit_stmt(s)
                }
            }
            ast::Mod::Expression(x) => v.visit_expr(*x.body),
            ast::Mod::FunctionType(_) => {}
        }
        v.seen
    });
    match r {
        Ok(seen) => {
            let rs: Vec<String> = seen
                .iter()
                .map(|(c, k, a, b)| format!("[\"{}\",{},{},{}]", c, jstr(k), a, b))
                .collect();
            out.push_str(&format!(",\"visited_deep\":[{}]", rs.join(",")));
        }
        Err(p) => out.push_str(&format!(",\"visit_deep_panic\":{}", p)),
    }
    // optimizer
    let m3 = m;
    let r = guard(move || {
        let mut o = ast::ConstantOptimizer::new();
        let once = Fold::<TextRange>::fold_mod(&mut o, m3).unwrap();
        let d1 = dump(&once);
        let twice = Fold::<TextRange>::fold_mod(&mut o, once).unwrap();
        let d2 = dump(&twice);
        (d1, d2)
    });
    match r {
        Ok((d1, d2)) => {
            if d1 == d2 {
                out.push_str(&format!(",\"opt\":{},\"opt_idem\":true", d1));
            } else {
                out.push_str(&format!(",\"opt\":{},\"opt_idem\":false,\"opt2\":{}", d1, d2));
            }
        }
        Err(p) => out.push_str(&format!(",\"opt_panic\":{}", p)),
    }
    out.push('}');
    out
}

/// `locate <mode>` — both locators over the parsed tree, or over the error.
pub fn op_locate(args: &[&str], payload: &[u8]) -> String {
    let src = match src_of(payload) {
        Ok(s) => s,
        Err(e) => return e,
    };
    let mode = mode_of(args.first().copied().unwrap_or("exec"));
    let m = match guard(|| parse(src, mode, "<vh>")) {
        Ok(Ok(m)) => m,
        Ok(Err(e)) => {
            let off: u32 = e.offset.into();
            let e1 = ParseError { error: rustpython_parser::ParseErrorType::Eof, offset: e.offset, source_path: String::new() };
            let e2 = ParseError { error: rustpython_parser::ParseErrorType::Eof, offset: e.offset, source_path: String::new() };
            let r = guard(|| {
                let l: rustpython_parser::source_code::LocatedError<rustpython_parser::ParseErrorType> =
                    RandomLocator::new(src).locate_error(e1);
                l.python_location()
            });
            let l = guard(|| {
                let l: rustpython_parser::source_code::LocatedError<rustpython_parser::ParseErrorType> =
                    LinearLocator::new(src).locate_error(e2);
                l.python_location()
            });
            let f = |x: Result<(usize, usize), String>| match x {
                Ok((a, b)) => format!("[{},{}]", a, b),
                Err(p) => p,
            };
            return format!(
                "{{\"err\":{},\"offset\":{},\"rand_loc\":{},\"lin_loc\":{}}}",
                jstr(&format!("{:?}", e.error)),
                off,
                f(r),
                f(l)
            );
        }
        Err(p) => return p,
    };
    let tree = dump(&m);
    let m1 = m.clone();
    let rand = guard(move || dump(&RandomLocator::new(src).fold_mod(m1).unwrap()));
    let lin = guard(move || dump(&LinearLocator::new(src).fold_mod(m).unwrap()));
    let mut out = format!("{{\"tree\":{}", tree);
    match (&rand, &lin) {
        (Ok(r), Ok(l)) if r == l => {
            out.push_str(&format!(",\"rand\":{},\"lin_equal\":true", r));
        }
        _ => {
            out.push_str(&format!(
                ",\"rand\":{},\"lin_equal\":false,\"lin\":{}",
                match &rand {
                    Ok(s) => s.clone(),
                    Err(p) => p.clone(),
                },
                match &lin {
                    Ok(s) => s.clone(),
                    Err(p) => p.clone(),
                }
            ));
        }
    }
    out.push('}');
    out
}

/// `args` — payload is a `def`/`lambda` program; converts its first
/// parameter list to the Python-style form and back, both API variants.
pub fn op_args(_args: &[&str], payload: &[u8]) -> String {
    let src = match src_of(payload) {
        Ok(s) => s,
        Err(e) => return e,
    };
    let m = match guard(|| ast::Suite::parse(src, "<vh>")) {
        Ok(Ok(m)) => m,
        Ok(Err(e)) => return err_json(&e),
        Err(p) => return p,
    };
    let a: ast::Arguments = match m.into_iter().next() {
        Some(ast::Stmt::FunctionDef(f)) => *f.args,
        Some(ast::Stmt::AsyncFunctionDef(f)) => *f.args,
        Some(ast::Stmt::Expr(e)) => match *e.value {
            ast::Expr::Lambda(l) => *l.args,
            _ => return "{\"noargs\":true}".into(),
        },
        _ => return "{\"noargs\":true}".into(),
    };
    let mut out = format!("{{\"orig\":{}", dump(&a));
    let a1 = a.clone();
    match guard(move || dump(&a1.to_python_arguments())) {
        Ok(d) => out.push_str(&format!(",\"py_to\":{}", d)),
        Err(p) => out.push_str(&format!(",\"py_to\":{}", p)),
    }
    let a2 = a.clone();
    match guard(move || dump(&a2.into_python_arguments())) {
        Ok(d) => out.push_str(&format!(",\"py_into\":{}", d)),
        Err(p) => out.push_str(&format!(",\"py_into\":{}", p)),
    }
    let a3 = a.clone();
    match guard(move || dump(&ast::PythonArguments::from(a3))) {
        Ok(d) => out.push_str(&format!(",\"py_from\":{}", d)),
        Err(p) => out.push_str(&format!(",\"py_from\":{}", p)),
    }
    let a4 = a.clone();
    match guard(move || dump(&a4.to_python_arguments().into_arguments())) {
        Ok(d) => out.push_str(&format!(",\"back_to\":{}", d)),
        Err(p) => out.push_str(&format!(",\"back_to\":{}", p)),
    }
    match guard(move || dump(&a.into_python_arguments().into_arguments())) {
        Ok(d) => out.push_str(&format!(",\"back_into\":{}", d)),
        Err(p) => out.push_str(&format!(",\"back_into\":{}", p)),
    }
    out.push('}');
    out
}

/// `stats [reset]` — hook counters.
pub fn op_stats(args: &[&str], _payload: &[u8]) -> String {
    if args.first().copied() == Some("reset") {
        rustpython_parser::verif::reset();
        return "{}".into();
    }
    let hits = rustpython_parser::verif::reduce_hits();
    let steps = rustpython_parser::verif::steps();
    let h: Vec<String> = hits.iter().map(|x| x.to_string()).collect();
    let s: Vec<String> = steps.iter().map(|x| x.to_string()).collect();
    format!("{{\"reduce\":[{}],\"steps\":[{}]}}", h.join(","), s.join(","))
}
