//! C16 / C17: repr of text and bytes, float text conversions. Batch ops: the
//! payload is one request per line, the reply one line per request.
use crate::util::{guard, hex, unhex};
use rustpython_ast::Constant;
use rustpython_literal::escape::{AsciiEscape, Escape, Quote, UnicodeEscape};
use rustpython_literal::{float, format::Case};
use rustpython_parser::Parse;

fn q(q: Quote) -> &'static str {
    match q {
        Quote::Single => "s",
        Quote::Double => "d",
    }
}
fn optlen(l: Option<usize>) -> String {
    l.map(|x| x.to_string()).unwrap_or_else(|| "-".into())
}

fn repr_str(s: &str) -> String {
    let e = UnicodeEscape::new_repr(s);
    let shown = format!("{}", e.str_repr());
    let ts = e.str_repr().to_string();
    let decode = match Constant::parse(&shown, "<vh>") {
        Ok(Constant::Str(v)) => {
            if v == s {
                "ok"
            } else {
                "differs"
            }
        }
        Ok(_) => "wrongkind",
        Err(_) => "reject",
    };
    let d = UnicodeEscape::with_preferred_quote(s, Quote::Double);
    let dshown = format!("{}", d.str_repr());
    let fs = UnicodeEscape::with_forced_quote(s, Quote::Single);
    let fd = UnicodeEscape::with_forced_quote(s, Quote::Double);
    let mut body = String::new();
    let _ = e.write_body(&mut body);
    format!(
        "OK\t{}\t{}\t{}\t{}\t{}\t{}\t{}\t{}\t{}\t{}\t{}\t{}",
        hex(shown.as_bytes()),
        optlen(e.layout().len),
        q(e.layout().quote),
        e.changed() as u8,
        decode,
        match &ts {
            Some(t) => (t == &shown) as u8,
            None => 2,
        },
        hex(dshown.as_bytes()),
        optlen(d.layout().len),
        hex(format!("{}", fs.str_repr()).as_bytes()),
        hex(format!("{}", fd.str_repr()).as_bytes()),
        std::str::from_utf8(shown.as_bytes()).is_ok() as u8,
        hex(body.as_bytes()),
    )
}

fn repr_bytes(b: &[u8]) -> String {
    let e = AsciiEscape::new_repr(b);
    let shown = format!("{}", e.bytes_repr());
    let ts = e.bytes_repr().to_string();
    let utf8 = std::str::from_utf8(shown.as_bytes()).is_ok();
    let decode = if !utf8 {
        "badutf8"
    } else {
        match Constant::parse(&shown, "<vh>") {
            Ok(Constant::Bytes(v)) => {
                if v == b {
                    "ok"
                } else {
                    "differs"
                }
            }
            Ok(_) => "wrongkind",
            Err(_) => "reject",
        }
    };
    let d = AsciiEscape::with_preferred_quote(b, Quote::Double);
    let dshown = format!("{}", d.bytes_repr());
    let fs = AsciiEscape::with_forced_quote(b, Quote::Single);
    let fd = AsciiEscape::with_forced_quote(b, Quote::Double);
    let named = AsciiEscape::named_repr_layout(b, "bytearray");
    format!(
        "OK\t{}\t{}\t{}\t{}\t{}\t{}\t{}\t{}\t{}\t{}\t{}\t{}",
        hex(shown.as_bytes()),
        optlen(e.layout().len),
        q(e.layout().quote),
        e.changed() as u8,
        decode,
        match &ts {
            Some(t) => (t == &shown) as u8,
            None => 2,
        },
        hex(dshown.as_bytes()),
        optlen(d.layout().len),
        hex(format!("{}", fs.bytes_repr()).as_bytes()),
        hex(format!("{}", fd.bytes_repr()).as_bytes()),
        utf8 as u8,
        optlen(named.len),
    )
}

pub fn op_repr(_args: &[&str], payload: &[u8]) -> String {
    let text = String::from_utf8_lossy(payload);
    let mut out = String::new();
    for line in text.lines() {
        let (k, h) = line.split_once(' ').unwrap_or((line, ""));
        let raw = unhex(h);
        let k = k.to_string();
        let r = guard(move || match k.as_str() {
            "s" => match String::from_utf8(raw) {
                Ok(s) => repr_str(&s),
                Err(_) => "BADINPUT".to_string(),
            },
            _ => repr_bytes(&raw),
        });
        match r {
            Ok(s) => out.push_str(&s),
            Err(p) => {
                out.push_str("PANIC\t");
                out.push_str(&p);
            }
        }
        out.push('\n');
    }
    out
}

fn bits_of(v: Option<f64>) -> String {
    match v {
        Some(f) => f.to_bits().to_string(),
        None => "NONE".into(),
    }
}

pub fn op_float(_args: &[&str], payload: &[u8]) -> String {
    let text = String::from_utf8_lossy(payload);
    let mut out = String::new();
    for line in text.lines() {
        let f: Vec<String> = line.split(' ').map(|s| s.to_string()).collect();
        let r = guard(move || -> String {
            let num = |i: usize| -> u64 { f.get(i).and_then(|s| s.parse().ok()).unwrap_or(0) };
            match f[0].as_str() {
                "f2s" => {
                    let v = f64::from_bits(num(1));
                    let s = float::to_string(v);
                    let h = float::to_hex(v);
                    format!(
                        "OK\t{}\t{}\t{}\t{}\t{}",
                        s,
                        h,
                        bits_of(float::parse_str(&s)),
                        bits_of(float::from_hex(&h)),
                        float::is_integer(v) as u8
                    )
                }
                "s2f" => {
                    let raw = unhex(&f[1]);
                    match std::str::from_utf8(&raw) {
                        Ok(s) => format!("OK\t{}\t{}", bits_of(float::parse_str(s)), bits_of(float::parse_bytes(&raw))),
                        Err(_) => format!("OK\t-\t{}", bits_of(float::parse_bytes(&raw))),
                    }
                }
                "fromhex" => {
                    let raw = unhex(&f[1]);
                    let s = String::from_utf8_lossy(&raw);
                    format!("OK\t{}", bits_of(float::from_hex(&s)))
                }
                "fmt" => {
                    let v = f64::from_bits(num(1));
                    let p = num(2) as usize;
                    let alt = num(3) == 1;
                    let case = if num(4) == 1 { Case::Upper } else { Case::Lower };
                    format!(
                        "OK\t{}\t{}\t{}\t{}",
                        float::format_fixed(p, v, case, alt),
                        float::format_exponent(p, v, case, alt),
                        float::format_general(p, v, case, alt, false),
                        float::format_general(p, v, case, alt, true)
                    )
                }
                _ => "?".into(),
            }
        });
        match r {
            Ok(s) => out.push_str(&s),
            Err(p) => {
                out.push_str("PANIC\t");
                out.push_str(&p);
            }
        }
        out.push('\n');
    }
    out
}
