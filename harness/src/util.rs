use std::cell::RefCell;
use std::panic::{catch_unwind, UnwindSafe};

thread_local! {
    static LAST_PANIC: RefCell<Option<(String, String)>> = RefCell::new(None);
}

pub fn install_panic_hook() {
    std::panic::set_hook(Box::new(|info| {
        let loc = info
            .location()
            .map(|l| {
                let f = l.file();
                // keep the path from the crate directory on, so signatures are stable
                let f = f.rsplit_once("/repo/").map(|x| x.1).unwrap_or(f);
                format!("{}:{}", f, l.line())
            })
            .unwrap_or_else(|| "?".to_string());
        let msg = if let Some(s) = info.payload().downcast_ref::<&str>() {
            s.to_string()
        } else if let Some(s) = info.payload().downcast_ref::<String>() {
            s.clone()
        } else {
            "<non-string panic>".to_string()
        };
        LAST_PANIC.with(|p| *p.borrow_mut() = Some((msg, loc)));
    }));
}

/// Run `f`; on panic return a JSON object `{"panic": msg, "loc": "file:line"}`.
pub fn guard<T>(f: impl FnOnce() -> T + UnwindSafe) -> Result<T, String> {
    LAST_PANIC.with(|p| *p.borrow_mut() = None);
    match catch_unwind(f) {
        Ok(v) => Ok(v),
        Err(_) => {
            let (msg, loc) = LAST_PANIC
                .with(|p| p.borrow_mut().take())
                .unwrap_or(("?".into(), "?".into()));
            let msg: String = msg.chars().take(300).collect();
            Err(format!("{{\"panic\":{},\"loc\":{}}}", jstr(&msg), jstr(&loc)))
        }
    }
}

pub fn guard_str(f: impl FnOnce() -> String + UnwindSafe) -> String {
    match guard(f) {
        Ok(s) => s,
        Err(p) => p,
    }
}

pub fn jstr(s: &str) -> String {
    let mut o = String::with_capacity(s.len() + 2);
    o.push('"');
    for c in s.chars() {
        match c {
            '"' => o.push_str("\\\""),
            '\\' => o.push_str("\\\\"),
            '\n' => o.push_str("\\n"),
            '\r' => o.push_str("\\r"),
            '\t' => o.push_str("\\t"),
            c if (c as u32) < 0x20 => o.push_str(&format!("\\u{:04x}", c as u32)),
            c => o.push(c),
        }
    }
    o.push('"');
    o
}

pub fn hex(b: &[u8]) -> String {
    let mut s = String::with_capacity(b.len() * 2);
    for x in b {
        s.push_str(&format!("{:02x}", x));
    }
    s
}

pub fn unhex(s: &str) -> Vec<u8> {
    (0..s.len() / 2)
        .map(|i| u8::from_str_radix(&s[2 * i..2 * i + 2], 16).unwrap_or(0))
        .collect()
}

pub fn variant() -> &'static str {
    if cfg!(feature = "full") {
        "full"
    } else if cfg!(feature = "fulllex") {
        "fulllex"
    } else if cfg!(feature = "numbig") {
        "numbig"
    } else {
        "deflt"
    }
}

/// Debug-render a value and convert to JSON; on converter failure return an
/// object carrying the raw text so the orchestrator can report it.
pub fn dump<T: std::fmt::Debug>(v: &T) -> String {
    let d = format!("{:?}", v);
    match crate::dbg2json::convert(&d) {
        Ok(j) => j,
        Err(e) => format!("{{\"converr\":{},\"dbg\":{}}}", jstr(&e), jstr(&d)),
    }
}

/// Leading identifier of a value's `Debug` rendering (the enum variant or
/// struct name) without rendering the whole value.
pub fn kind_of<T: std::fmt::Debug>(v: &T) -> String {
    use std::fmt::Write;
    struct Head(String);
    impl Write for Head {
        fn write_str(&mut self, s: &str) -> std::fmt::Result {
            for c in s.chars() {
                if c.is_ascii_alphanumeric() || c == '_' {
                    self.0.push(c);
                } else {
                    return Err(std::fmt::Error);
                }
            }
            Ok(())
        }
    }
    let mut h = Head(String::new());
    let _ = write!(h, "{:?}", v);
    h.0
}

pub struct Rng(pub u64);
impl Rng {
    pub fn new(seed: u64) -> Self {
        Rng(seed.wrapping_mul(0x9E3779B97F4A7C15) ^ 0xD1B54A32D192ED03 | 1)
    }
    pub fn next(&mut self) -> u64 {
        // xorshift64*
        let mut x = self.0;
        x ^= x >> 12;
        x ^= x << 25;
        x ^= x >> 27;
        self.0 = x;
        x.wrapping_mul(0x2545F4914F6CDD1D)
    }
    pub fn below(&mut self, n: usize) -> usize {
        if n == 0 {
            0
        } else {
            (self.next() % n as u64) as usize
        }
    }
}
