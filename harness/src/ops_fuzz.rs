//! C03: in-process seeded mutation loop. Every iteration is reproducible from
//! (seed, index) alone, so a crash of the whole process can be bisected by the
//! orchestrator (`trace` prints the index to stderr before each execution,
//! `only` runs a single index).
use crate::util::{guard, hex, jstr, kind_of, Rng};
use rustpython_parser::{
    lexer::lex_starts_at, parse_starts_at, text_size::TextSize, Mode,
};
use std::collections::BTreeMap;

const DICT: &[&str] = &[
    "(", ")", "[", "]", "{", "}", ":", ",", ";", ".", "=", "==", "!=", "->", ":=", "+", "-", "*", "**", "/", "//",
    "%", "@", "&", "|", "^", "~", "<<", ">>", "<", ">", "<=", ">=", "+=", "**=", "//=", ">>=", "<<=", "@=", "...",
    "'", "\"", "'''", "\"\"\"", "\\", "\\\n", "\n", "\r", "\r\n", "\n    ", "\n\t", "\n  \t", " ", "\t", "\x0c", "#",
    "f'", "f\"", "rb'", "b'", "u'", "Rb\"", "f'{", "{", "}", "{{", "}}", "!r", "!s", ":>", "=}", "\\N{", "\\x", "\\u",
    "\\U0010ffff", "\\777", "0x", "0b", "0o", "1_", "1e", "1.", ".5", "1j", "0_0", "00", "1e+", "9999999999999999999999",
    "if ", "else", "elif ", "for ", "in ", "while ", "def ", "class ", "lambda ", "lambda:", "match ", "case ", "type ",
    "with ", "as ", "try:", "except ", "except*", "finally:", "import ", "from ", "return ", "yield ", "await ",
    "async ", "not ", "and ", "or ", "is ", "del ", "global ", "nonlocal ", "assert ", "raise ", "pass", "break",
    "None", "True", "False", "_", "x", "\u{e9}", "\u{3042}", "\u{1d11e}", "\u{1f600}", "\u{301}", "\u{feff}", "\u{a0}",
    "\u{2028}", "\u{85}", "\u{0}", "\u{7f}", "$", "?", "`", "!", "\u{b5}", "\u{212b}",
    // characters that are numeric / digits / letters only in the Unicode sense, glued to ASCII digits and names
    "1\u{663}", "2\u{b2}", "0\u{bd}", "10_\u{967}", "7\u{663}j", "1\u{1d7d9}", "0x\u{ff11}", "1e\u{661}", "1.\u{662}", "x\u{b2}", "\u{2167}", "\u{ff10}", "\u{1d7ce}",
    "\u{2160}x", "1\u{3007}", "0b\u{661}", "0o\u{667}", "\u{30}\u{fe0f}\u{20e3}",
];

fn parse_seeds(payload: &[u8]) -> Vec<Vec<char>> {
    let mut out = Vec::new();
    let mut i = 0;
    while i < payload.len() {
        let nl = match payload[i..].iter().position(|b| *b == b'\n') {
            Some(p) => i + p,
            None => break,
        };
        let len: usize = std::str::from_utf8(&payload[i..nl]).ok().and_then(|s| s.parse().ok()).unwrap_or(0);
        let start = nl + 1;
        let end = (start + len).min(payload.len());
        if let Ok(s) = std::str::from_utf8(&payload[start..end]) {
            out.push(s.chars().collect());
        }
        i = end;
    }
    if out.is_empty() {
        out.push("x = 1\n".chars().collect());
    }
    out
}

fn mutate(rng: &mut Rng, seeds: &[Vec<char>], maxlen: usize) -> String {
    let mut t: Vec<char> = seeds[rng.below(seeds.len())].clone();
    if t.len() > maxlen {
        let s = rng.below(t.len() - maxlen + 1);
        t = t[s..s + maxlen].to_vec();
    }
    if rng.below(6) == 0 {
        // the seed itself (directed seeds are meant to be executed as they are, too)
        return t.into_iter().collect();
    }
    let rounds = 1 + rng.below(4);
    for _ in 0..rounds {
        let n = t.len();
        match rng.below(14) {
            0 if n > 0 => {
                let a = rng.below(n);
                let b = (a + 1 + rng.below(8)).min(n);
                t.drain(a..b);
            }
            1 if n > 0 => {
                let a = rng.below(n);
                let b = (a + 1 + rng.below(12)).min(n);
                let piece: Vec<char> = t[a..b].to_vec();
                let at = rng.below(n + 1);
                for (k, c) in piece.into_iter().enumerate() {
                    t.insert(at + k, c);
                }
            }
            2 if n > 1 => {
                let a = rng.below(n - 1);
                t.swap(a, a + 1);
            }
            3 => {
                let o = &seeds[rng.below(seeds.len())];
                if !o.is_empty() {
                    let a = rng.below(o.len());
                    let b = (a + 1 + rng.below(40)).min(o.len());
                    let at = rng.below(n + 1);
                    for (k, c) in o[a..b].iter().enumerate() {
                        t.insert(at + k, *c);
                    }
                }
            }
            4 if n > 0 => {
                t.truncate(rng.below(n));
            }
            5 | 6 | 7 => {
                let d = DICT[rng.below(DICT.len())];
                let at = rng.below(n + 1);
                for (k, c) in d.chars().enumerate() {
                    t.insert(at + k, c);
                }
            }
            8 if n > 0 => {
                // bracket / quote flip at a random bracket-like char
                let a = rng.below(n);
                for k in 0..n {
                    let i = (a + k) % n;
                    let r = match t[i] {
                        '(' => ')',
                        ')' => '(',
                        '[' => ']',
                        ']' => '}',
                        '{' => '[',
                        '}' => ')',
                        '\'' => '"',
                        '"' => '\'',
                        _ => continue,
                    };
                    t[i] = r;
                    break;
                }
            }
            9 if n > 0 => {
                // indentation damage
                let a = rng.below(n);
                for k in 0..n {
                    let i = (a + k) % n;
                    if t[i] == '\n' {
                        let ins = ["  ", "\t", " \t", "        ", ""][rng.below(5)];
                        if ins.is_empty() && i + 1 < t.len() && t[i + 1] == ' ' {
                            t.remove(i + 1);
                        } else {
                            for (q, c) in ins.chars().enumerate() {
                                t.insert(i + 1 + q, c);
                            }
                        }
                        break;
                    }
                }
            }
            10 if n > 0 => {
                let a = rng.below(n);
                t[a] = char::from_u32(rng.below(0x250) as u32).unwrap_or('x');
            }
            11 if n > 0 => {
                // repeat a slice many times (length / nesting stress within maxlen)
                let a = rng.below(n);
                let b = (a + 1 + rng.below(3)).min(n);
                let piece: Vec<char> = t[a..b].to_vec();
                let reps = 1 + rng.below(60);
                for _ in 0..reps {
                    for (k, c) in piece.iter().enumerate() {
                        t.insert(a + k, *c);
                    }
                }
            }
            12 => {
                // escape soup at a random position (often lands inside a string literal of the seed)
                let at = rng.below(n + 1);
                let mut k = 0;
                for _ in 0..(1 + rng.below(4)) {
                    for c in ESC[rng.below(ESC.len())].chars() {
                        t.insert(at + k, c);
                        k += 1;
                    }
                }
            }
            _ => {
                let d = DICT[rng.below(DICT.len())];
                t.extend(d.chars());
            }
        }
        if t.len() > maxlen * 2 {
            t.truncate(maxlen * 2);
        }
    }
    t.into_iter().collect()
}

const ESC: &[&str] = &[
    "\\", "0", "1", "7", "8", "9", "x", "u", "U", "N", "{", "}", "a", "f", "F", "n", "\n", "\r", "'", "\"", "\\0", "\\1", "\\7", "\\12", "\\377", "\\400", "\\x4", "\\xg",
    "\\u12", "\\U0010", "\\N{", "\\N{A}", "\\N{LATIN SMALL LETTER A}", "{{", "}}", "{x}", "{x!r}", "{x:", "{x=", "!", ":", "\u{e9}", "\u{1d11e}", "\u{0}", " ", "_", ".", "e", "j",
];

/// A string / bytes / f-string literal (or number-like text) whose body is drawn from an escape alphabet.
fn literal_soup(rng: &mut Rng) -> String {
    let prefixes = ["", "", "b", "r", "f", "rb", "fr", "u", "F", "B", "Rb", "bR", "f", "f"];
    let quotes = ["'", "\"", "\'\'\'", "\"\"\""];
    let mut s = String::new();
    let pieces = 1 + rng.below(3);
    for p in 0..pieces {
        if p > 0 {
            s.push(' ');
        }
        if rng.below(8) == 0 {
            // number-like
            for _ in 0..(1 + rng.below(8)) {
                s.push_str(["0", "1", "9", "_", ".", "e", "E", "+", "-", "j", "x", "b", "o", "f", "a"][rng.below(15)]);
            }
            continue;
        }
        s.push_str(prefixes[rng.below(prefixes.len())]);
        let q = quotes[rng.below(quotes.len())];
        s.push_str(q);
        for _ in 0..rng.below(10) {
            s.push_str(ESC[rng.below(ESC.len())]);
        }
        if rng.below(12) != 0 {
            s.push_str(q);
        }
    }
    match rng.below(4) {
        0 => format!("x = {}\n", s),
        1 => format!("f({})", s),
        _ => s,
    }
}

const HEAD: &[&str] = &[
    "(", ")", "[", "]", "{", "}", "(", "[", "]", ")", ":", ":", ",", "=", "*", "**", ".", ";", " ", "\n", "\n    ", "\\\n", "lambda", "lambda:", "lambda x:",
    "x", "X", "int", "_", "1", "'s'", "f'{x}'", "if", "else", "as", "in", "not", "match", "case", "type", "|", "->", ":=", "#c\n", "...",
];

/// A logical line that starts with a soft keyword (the token-stream look-ahead of soft_keywords.rs runs on it)
/// followed by a soup of brackets (balanced or not, of mixed kinds), colons, lambdas, names and line breaks.
fn header_soup(rng: &mut Rng) -> String {
    let mut s = String::new();
    let lines = 1 + rng.below(3);
    for l in 0..lines {
        if l > 0 {
            s.push_str(["\n", "\n    ", ";", "\n\t", "\r\n"][rng.below(5)]);
        }
        s.push_str(["type ", "match ", "case ", "type X", "type X[", "match(", "case[", "match x", "case x", "type", "match", " type ", "if x: type "][rng.below(13)]);
        for _ in 0..rng.below(14) {
            s.push_str(HEAD[rng.below(HEAD.len())]);
            if rng.below(3) == 0 {
                s.push(' ');
            }
        }
    }
    if rng.below(2) == 0 {
        s.push_str([":", ":\n    pass", " = int", ":\n case _: pass\n", "\n"][rng.below(5)]);
    }
    s
}

const FS: &[&str] = &[
    "{", "}", "{", "}", "{{", "}}", "=", " = ", "!r", "!s", "!x", ":", ":>{w}", "\u{e9}", "\u{65e5}", "\u{1d11e}", "'a'", "\"b\"", "'\u{e9}'", "\\N{", "\\N{\u{e9}", "\\N{DIGIT ONE}", "x", "y", " ", "\r\n", "\n", "\r",
    "(", ")", "[", "]", "lambda", ":=", "==", "!=", "a b", "1", ".", ",", "'", "\"", "\\", "#", "\u{feff}", "'''", "1 2", "x y=", "\u{e9} \u{e9}",
];

/// An f-string whose body is a soup of field syntax (braces, `=`, conversions, specs, nested quotes, escapes), multi-byte
/// characters and line breaks: the nested field parser computes error positions on a reconstructed text.
fn fstring_soup(rng: &mut Rng) -> String {
    let q = ["'", "\"", "'''", "\"\"\""][rng.below(4)];
    let mut s = String::new();
    s.push_str(["", "x = ", "\u{e9} = 1\n", "(\n", "\u{feff}"][rng.below(5)]);
    s.push_str(["f", "F", "rf", "fR", "f", "f"][rng.below(6)]);
    s.push_str(q);
    for _ in 0..(1 + rng.below(12)) {
        s.push_str(FS[rng.below(FS.len())]);
    }
    if rng.below(10) != 0 {
        s.push_str(q);
    }
    s.push_str(["", "\n", " 'z'", ")"][rng.below(4)]);
    s
}

fn token_soup(rng: &mut Rng, maxlen: usize) -> String {
    let n = 1 + rng.below(40);
    let mut s = String::new();
    for _ in 0..n {
        s.push_str(DICT[rng.below(DICT.len())]);
        if rng.below(3) == 0 {
            s.push(' ');
        }
        if s.len() > maxlen {
            break;
        }
    }
    s
}

struct Viol {
    i: u64,
    what: &'static str,
    mode: &'static str,
    offset: u32,
    input: String,
    detail: String,
}

/// `fuzz <seed> <start> <count> <maxlen> [trace|only]`
pub fn op_fuzz(args: &[&str], payload: &[u8]) -> String {
    let num = |i: usize| -> u64 { args.get(i).and_then(|s| s.parse().ok()).unwrap_or(0) };
    let seed = num(0);
    let start = num(1);
    let count = num(2);
    let maxlen = (num(3) as usize).max(8);
    let flag = args.get(4).copied().unwrap_or("");
    let seeds = parse_seeds(payload);
    // a payload whose first seed is the marker is a list of directed inputs: each is executed as it is (index i runs seed
    // i mod n), in a seeded mode and at a seeded start offset
    let verbatim = seeds.len() > 1 && seeds[0].iter().collect::<String>() == "\u{0}VERBATIM";
    let mut viol: Vec<Viol> = Vec::new();
    let mut nviol = 0u64;
    let mut kinds: BTreeMap<String, u64> = BTreeMap::new();
    let (mut execs, mut oks, mut errs, mut lexerrs) = (0u64, 0u64, 0u64, 0u64);
    let mut max_ratio = 0f64;
    let mut max_ratio_input = String::new();
    let mut max_loop_ratio = 0f64;
    let mut samples: Vec<String> = Vec::new();
    let mut distinct: std::collections::HashSet<u64> = std::collections::HashSet::new();
    let mut only_input = String::new();
    let mut only_mode = "";
    let mut only_off = 0u32;
    for i in start..start + count {
        let mut rng = Rng::new(seed.wrapping_mul(0x100000001B3) ^ i.wrapping_mul(0x9E3779B97F4A7C15));
        let text = match if verbatim { 100 } else { rng.below(20) } {
            100 => seeds[1 + (i as usize) % (seeds.len() - 1)].iter().collect(),
            0 | 1 => token_soup(&mut rng, maxlen),
            2 | 3 | 4 => literal_soup(&mut rng),
            5 | 6 => header_soup(&mut rng),
            7 => fstring_soup(&mut rng),
            _ => mutate(&mut rng, &seeds, maxlen),
        };
        let (mname, mode) = [("exec", Mode::Module), ("single", Mode::Interactive), ("eval", Mode::Expression)][rng.below(3)];
        let len = text.len() as u32;
        let off: u32 = match rng.below(8) {
            0 => 1,
            1 => 400,
            2 => 65535,
            3 => 1 << 31,
            4 => u32::MAX - len,
            5 => u32::MAX - len - 1,
            _ => 0,
        };
        if flag == "trace" {
            eprintln!("I {}", i);
        }
        if flag == "only" || flag == "gen" {
            only_input = text.clone();
            only_mode = mname;
            only_off = off;
        }
        if flag == "gen" {
            continue;
        }
        if samples.len() < 4 && i % 97 == 3 {
            samples.push(text.clone());
        }
        if text.len() > 4 {
            use std::hash::{Hash, Hasher};
            let mut hs = std::collections::hash_map::DefaultHasher::new();
            (mname, off, &text).hash(&mut hs);
            distinct.insert(hs.finish());
        }
        let before = rustpython_parser::verif::steps();
        // 1. token stream up to and including the first error is finite
        let cap = 4 * text.len() + 64;
        let t2 = text.clone();
        let lexed = guard(move || {
            let mut n = 0usize;
            let mut err: Option<(String, u32)> = None;
            let mut ntok_nontrivial = 0usize;
            for t in lex_starts_at(&t2, mode, TextSize::from(off)) {
                n += 1;
                match t {
                    Err(e) => {
                        err = Some((kind_of(&e.error), e.location.into()));
                        break;
                    }
                    Ok((tok, _)) => {
                        if !matches!(tok, rustpython_parser::Tok::Newline) {
                            ntok_nontrivial += 1;
                        }
                    }
                }
                if n > cap {
                    break;
                }
            }
            (n, err, ntok_nontrivial)
        });
        let mut push = |what: &'static str, detail: String| {
            nviol += 1;
            if viol.len() < 400 {
                viol.push(Viol { i, what, mode: mname, offset: off, input: text.clone(), detail });
            }
        };
        let in_bounds = |o: u32| -> bool {
            o >= off && o - off <= len && text.is_char_boundary((o - off) as usize)
        };
        let mut ntok = usize::MAX;
        match lexed {
            Err(p) => push("lex-panic", p),
            Ok((n, err, nt)) => {
                ntok = nt;
                if n > cap {
                    push("lex-unbounded", format!("{} items for {} bytes", n, text.len()));
                }
                if let Some((k, o)) = err {
                    lexerrs += 1;
                    if !in_bounds(o) {
                        push("lex-error-offset", format!("{} at {}", k, o));
                    }
                }
            }
        }
        // 2. parse
        let t3 = text.clone();
        let parsed = guard(move || parse_starts_at(&t3, mode, "<vh>", TextSize::from(off)).map(|_| ()));
        execs += 1;
        match parsed {
            Err(p) => push("parse-panic", p),
            Ok(Ok(())) => oks += 1,
            Ok(Err(e)) => {
                errs += 1;
                let k = match &e.error {
                    rustpython_parser::ParseErrorType::Lexical(l) => format!("Lexical:{}", kind_of(l)),
                    o => kind_of(o),
                };
                *kinds.entry(k.clone()).or_insert(0) += 1;
                let o: u32 = e.offset.into();
                if !in_bounds(o) {
                    push("parse-error-offset", format!("{} at {} ntok={}", k, o, ntok));
                }
            }
        }
        let after = rustpython_parser::verif::steps();
        let total: u64 = (0..5).map(|k| after[k] - before[k]).sum();
        let ratio = total as f64 / (text.len() as f64 + 16.0);
        if ratio > max_ratio {
            max_ratio = ratio;
            max_ratio_input = text.clone();
        }
        let lr = (after[1] - before[1]) as f64 / (text.len() as f64 + 16.0);
        if lr > max_loop_ratio {
            max_loop_ratio = lr;
        }
    }
    let vs: Vec<String> = viol
        .iter()
        .map(|v| {
            format!(
                "{{\"i\":{},\"what\":{},\"mode\":{},\"offset\":{},\"input\":{},\"detail\":{}}}",
                v.i,
                jstr(v.what),
                jstr(v.mode),
                v.offset,
                jstr(&hex(v.input.as_bytes())),
                jstr(&v.detail)
            )
        })
        .collect();
    let ks: Vec<String> = kinds.iter().map(|(k, v)| format!("{}:{}", jstr(k), v)).collect();
    let ss: Vec<String> = samples.iter().map(|s| jstr(s)).collect();
    format!(
        "{{\"distinct\":{},\"execs\":{},\"ok\":{},\"err\":{},\"lexerr\":{},\"err_kinds\":{{{}}},\"max_ratio\":{:.3},\"max_ratio_input\":{},\"max_loop_ratio\":{:.3},\"nviol\":{},\"violations\":[{}],\"samples\":[{}],\"only_input\":{},\"only_mode\":{},\"only_offset\":{}}}",
        distinct.len(),
        execs,
        oks,
        errs,
        lexerrs,
        ks.join(","),
        max_ratio,
        jstr(&hex(max_ratio_input.as_bytes())),
        max_loop_ratio,
        nviol,
        vs.join(","),
        ss.join(","),
        jstr(&hex(only_input.as_bytes())),
        jstr(only_mode),
        only_off
    )
}
