//! `vh` — verification harness for RustPython/Parser.
//!
//! One process serves many requests over stdin/stdout:
//!   request : `<op> <arg>* <len>\n` followed by `<len>` payload bytes
//!   response: `<len>\n` followed by `<len>` bytes (JSON or line-oriented text)
//!
//! Every operation runs under `catch_unwind`; a panic hook records the panic
//! message and location so that a panic is an observation with a signature.
mod dbg2json;
mod ops_fmt;
mod ops_fuzz;
mod ops_lit;
mod ops_pos;
mod ops_tree;
mod util;

use std::io::{BufRead, Read, Write};

fn main() {
    util::install_panic_hook();
    let args: Vec<String> = std::env::args().collect();
    if args.len() > 1 && args[1] == "--oneshot" {
        // `vh --oneshot <op> <arg>* <payload-file>`: used under Miri / valgrind.
        let payload = std::fs::read(&args[args.len() - 1]).expect("payload file");
        let a: Vec<&str> = args[3..args.len() - 1].iter().map(|s| s.as_str()).collect();
        let reply = dispatch(&args[2], &a, &payload);
        std::io::stdout().write_all(reply.as_bytes()).unwrap();
        println!();
        return;
    }
    let stdin = std::io::stdin();
    let mut inp = stdin.lock();
    let stdout = std::io::stdout();
    let mut out = stdout.lock();
    loop {
        let mut hdr = String::new();
        if inp.read_line(&mut hdr).unwrap_or(0) == 0 {
            break;
        }
        let parts: Vec<&str> = hdr.trim_end().split(' ').collect();
        if parts.len() < 2 {
            break;
        }
        let op = parts[0];
        let len: usize = parts[parts.len() - 1].parse().expect("length");
        let mut buf = vec![0u8; len];
        inp.read_exact(&mut buf).expect("payload");
        let reply = dispatch(op, &parts[1..parts.len() - 1], &buf);
        write!(out, "{}\n", reply.len()).unwrap();
        out.write_all(reply.as_bytes()).unwrap();
        out.flush().unwrap();
    }
}

fn dispatch(op: &str, args: &[&str], payload: &[u8]) -> String {
    // ops guard the library calls they make; a panic that still escapes one (a call the op did not expect to panic) is
    // reported as a reply instead of killing the process
    match util::guard(std::panic::AssertUnwindSafe(|| dispatch_inner(op, args, payload))) {
        Ok(s) => s,
        Err(p) => format!("{{\"op_panicked\":{}}}", p),
    }
}

fn dispatch_inner(op: &str, args: &[&str], payload: &[u8]) -> String {
    match op {
        "ping" => format!("{{\"variant\":\"{}\",\"hooks\":true}}", util::variant()),
        "parse" => ops_tree::op_parse(args, payload),
        "lex" => ops_tree::op_lex(args, payload),
        "entry" => ops_tree::op_entry(args, payload),
        "unparse" => ops_tree::op_unparse(args, payload),
        "foldvisit" => ops_tree::op_foldvisit(args, payload),
        "locate" => ops_tree::op_locate(args, payload),
        "args" => ops_tree::op_args(args, payload),
        "mode" => ops_tree::op_mode(args, payload),
        "stats" => ops_tree::op_stats(args, payload),
        "pos" => ops_pos::op_pos(args, payload),
        "repr" => ops_lit::op_repr(args, payload),
        "float" => ops_lit::op_float(args, payload),
        "fmt" => ops_fmt::op_fmt(args, payload),
        "cfmt" => ops_fmt::op_cfmt(args, payload),
        "tmpl" => ops_fmt::op_tmpl(args, payload),
        "fuzz" => ops_fuzz::op_fuzz(args, payload),
        _ => "{\"unknown_op\":true}".to_string(),
    }
}
