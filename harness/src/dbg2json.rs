//! Generic converter: Rust `{:?}` output of derived Debug -> JSON text.
pub fn convert(s: &str) -> Result<String, String> {
    let mut p = P { b: s.as_bytes(), i: 0, out: String::with_capacity(s.len() * 2) };
    p.value()?;
    p.ws();
    if p.i != p.b.len() { return Err(format!("trailing at {}", p.i)); }
    Ok(p.out)
}
struct P<'a> { b: &'a [u8], i: usize, out: String }
fn jstr(out: &mut String, s: &str) {
    out.push('"');
    for c in s.chars() {
        match c {
            '"' => out.push_str("\\\""),
            '\\' => out.push_str("\\\\"),
            '\n' => out.push_str("\\n"),
            '\r' => out.push_str("\\r"),
            '\t' => out.push_str("\\t"),
            c if (c as u32) < 0x20 => out.push_str(&format!("\\u{:04x}", c as u32)),
            c => out.push(c),
        }
    }
    out.push('"');
}
impl<'a> P<'a> {
    fn ws(&mut self) { while self.i < self.b.len() && (self.b[self.i] == b' ' || self.b[self.i] == b'\n') { self.i += 1; } }
    fn peek(&self) -> Option<u8> { self.b.get(self.i).copied() }
    fn expect(&mut self, c: u8) -> Result<(), String> {
        self.ws();
        if self.peek() == Some(c) { self.i += 1; Ok(()) } else { Err(format!("expected {:?} at {} got {:?}", c as char, self.i, self.peek().map(|x| x as char))) }
    }
    fn quoted(&mut self, q: u8) -> Result<String, String> {
        // at opening quote
        self.i += 1;
        let mut s = String::new();
        loop {
            let c = self.peek().ok_or("eof in string")?;
            if c == q { self.i += 1; break; }
            if c == b'\\' {
                self.i += 1;
                let e = self.peek().ok_or("eof in escape")?;
                self.i += 1;
                match e {
                    b'n' => s.push('\n'), b'r' => s.push('\r'), b't' => s.push('\t'), b'0' => s.push('\0'),
                    b'\\' => s.push('\\'), b'"' => s.push('"'), b'\'' => s.push('\''),
                    b'u' => {
                        if self.peek() != Some(b'{') { return Err("bad \\u".into()); }
                        self.i += 1;
                        let st = self.i;
                        while self.peek() != Some(b'}') { self.i += 1; if self.i >= self.b.len() { return Err("eof in \\u".into()); } }
                        let hex = std::str::from_utf8(&self.b[st..self.i]).unwrap();
                        self.i += 1;
                        let v = u32::from_str_radix(hex, 16).map_err(|e| e.to_string())?;
                        s.push(char::from_u32(v).ok_or("bad char")?);
                    }
                    b'x' => {
                        let hex = std::str::from_utf8(&self.b[self.i..self.i + 2]).unwrap();
                        self.i += 2;
                        s.push(u8::from_str_radix(hex, 16).map_err(|e| e.to_string())? as char);
                    }
                    o => return Err(format!("unknown escape {}", o as char)),
                }
            } else {
                // copy one utf8 char
                let st = self.i;
                self.i += 1;
                while self.i < self.b.len() && (self.b[self.i] & 0xC0) == 0x80 { self.i += 1; }
                s.push_str(std::str::from_utf8(&self.b[st..self.i]).unwrap());
            }
        }
        Ok(s)
    }
    fn list(&mut self, close: u8) -> Result<(), String> {
        // after opening bracket; emits [ ... ]
        self.out.push('[');
        let mut first = true;
        loop {
            self.ws();
            if self.peek() == Some(close) { self.i += 1; break; }
            if !first { self.out.push(','); }
            first = false;
            self.value()?;
            self.ws();
            if self.peek() == Some(b',') { self.i += 1; }
        }
        self.out.push(']');
        Ok(())
    }
    fn value(&mut self) -> Result<(), String> {
        self.ws();
        let c = self.peek().ok_or("eof")?;
        match c {
            b'"' => { let s = self.quoted(b'"')?; jstr(&mut self.out, &s); }
            b'\'' => { let s = self.quoted(b'\'')?; self.out.push_str("{\"_c\":"); jstr(&mut self.out, &s); self.out.push('}'); }
            b'[' => { self.i += 1; self.list(b']')?; }
            b'(' => { self.i += 1; self.ws(); if self.peek() == Some(b')') { self.i += 1; self.out.push_str("null"); } else { self.out.push_str("{\"_tup\":"); self.list(b')')?; self.out.push('}'); } }
            b'-' | b'0'..=b'9' => {
                let st = self.i;
                self.i += 1;
                while let Some(c) = self.peek() {
                    if c.is_ascii_alphanumeric() || c == b'+' || c == b'-' || c == b'_' { self.i += 1; }
                    else if c == b'.' {
                        // range `a..b` or float
                        if self.b.get(self.i + 1) == Some(&b'.') { break; }
                        self.i += 1;
                    } else { break; }
                }
                let num = std::str::from_utf8(&self.b[st..self.i]).unwrap().to_string();
                if self.b.get(self.i) == Some(&b'.') && self.b.get(self.i + 1) == Some(&b'.') {
                    self.i += 2;
                    let st2 = self.i;
                    while let Some(c) = self.peek() { if c.is_ascii_digit() { self.i += 1; } else { break; } }
                    let end = std::str::from_utf8(&self.b[st2..self.i]).unwrap();
                    self.out.push_str(&format!("[{},{}]", num, end));
                } else {
                    self.out.push_str("{\"_n\":"); jstr(&mut self.out, &num); self.out.push('}');
                }
            }
            c if c.is_ascii_alphabetic() || c == b'_' => {
                let st = self.i;
                while let Some(c) = self.peek() { if c.is_ascii_alphanumeric() || c == b'_' { self.i += 1; } else { break; } }
                let name = std::str::from_utf8(&self.b[st..self.i]).unwrap().to_string();
                self.ws();
                match self.peek() {
                    Some(b'(') => {
                        self.i += 1;
                        if name == "Some" { self.value()?; self.ws(); if self.peek() == Some(b',') { self.i += 1; } self.expect(b')')?; }
                        else { self.out.push_str("{\"_t\":"); jstr(&mut self.out, &name); self.out.push_str(",\"_a\":"); self.list(b')')?; self.out.push('}'); }
                    }
                    Some(b'{') => {
                        self.i += 1;
                        self.out.push_str("{\"_t\":"); jstr(&mut self.out, &name);
                        loop {
                            self.ws();
                            if self.peek() == Some(b'}') { self.i += 1; break; }
                            let st = self.i;
                            while let Some(c) = self.peek() { if c.is_ascii_alphanumeric() || c == b'_' { self.i += 1; } else { break; } }
                            let f = std::str::from_utf8(&self.b[st..self.i]).unwrap().to_string();
                            self.expect(b':')?;
                            self.out.push(','); jstr(&mut self.out, &f); self.out.push(':');
                            self.value()?;
                            self.ws();
                            if self.peek() == Some(b',') { self.i += 1; }
                        }
                        self.out.push('}');
                    }
                    Some(b'|') => {
                        // bitflags: `A | B | C`
                        let mut all = name.clone();
                        while self.peek() == Some(b'|') {
                            self.i += 1;
                            self.ws();
                            let st = self.i;
                            while let Some(c) = self.peek() { if c.is_ascii_alphanumeric() || c == b'_' { self.i += 1; } else { break; } }
                            all.push('|');
                            all.push_str(std::str::from_utf8(&self.b[st..self.i]).unwrap());
                            self.ws();
                        }
                        jstr(&mut self.out, &format!("@{}", all));
                    }
                    _ => {
                        match name.as_str() {
                            "None" => self.out.push_str("null"),
                            "true" => self.out.push_str("true"),
                            "false" => self.out.push_str("false"),
                            "inf" | "NaN" => { self.out.push_str("{\"_n\":"); jstr(&mut self.out, &name); self.out.push('}'); }
                            _ => jstr(&mut self.out, &format!("@{}", name)),
                        }
                    }
                }
            }
            o => return Err(format!("unexpected {:?} at {}", o as char, self.i)),
        }
        Ok(())
    }
}
