//! C15 (and the primitive part of C13): in-process monitor comparing the
//! position primitives with a naive character-by-character model.
use crate::util::{guard, jstr, Rng};
use rustpython_parser_core::source_code::{
    LineIndex, LinearLocator, OneIndexed, RandomLocator, SourceCode, UniversalNewlineIterator,
};
use rustpython_parser_core::source_location::newlines::{
    find_newline, Line, LineEnding, NewlineWithTrailingNewline, StrExt,
};
use rustpython_parser_core::text_size::{TextRange, TextSize};
use std::cmp::Ordering;
use std::ops::{Bound, RangeBounds};

/// Naive model: (start, end-without-terminator, end-with-terminator) per line;
/// the last line (possibly empty) has no terminator.
fn model_lines(text: &str) -> Vec<(usize, usize, usize)> {
    let b = text.as_bytes();
    let mut out = Vec::new();
    let mut start = 0;
    let mut i = 0;
    while i < b.len() {
        if b[i] == b'\n' {
            out.push((start, i, i + 1));
            start = i + 1;
            i += 1;
        } else if b[i] == b'\r' {
            if i + 1 < b.len() && b[i + 1] == b'\n' {
                out.push((start, i, i + 2));
                start = i + 2;
                i += 2;
            } else {
                out.push((start, i, i + 1));
                start = i + 1;
                i += 1;
            }
        } else {
            i += 1;
        }
    }
    out.push((start, b.len(), b.len()));
    out
}

/// Naive model of (row, column), both 1-based; the row is the line whose
/// span (terminator included) contains the offset, the last line also owns
/// the end-of-text offset. Columns count characters; a leading BOM is not
/// counted.
fn model_location(text: &str, lines: &[(usize, usize, usize)], off: usize) -> (u32, u32) {
    let mut row = lines.len() - 1;
    for (i, l) in lines.iter().enumerate() {
        if off < l.2 {
            row = i;
            break;
        }
    }
    let mut ls = lines[row].0;
    if row == 0 && text.starts_with('\u{feff}') && off >= 3 {
        ls = 3;
    }
    let col = text[ls..off].chars().count();
    (row as u32 + 1, col as u32 + 1)
}

struct Mon {
    mism: Vec<String>,
    queries: u64,
}
impl Mon {
    fn bad(&mut self, what: &str, text: &str, detail: String) {
        if self.mism.len() < 50 {
            self.mism.push(format!(
                "{{\"what\":{},\"text\":{},\"detail\":{}}}",
                jstr(what),
                jstr(text),
                jstr(&detail)
            ));
        } else {
            self.mism.push(String::new());
        }
    }
    fn chk<T: PartialEq + std::fmt::Debug>(&mut self, what: &str, text: &str, got: T, exp: T) {
        self.queries += 1;
        if got != exp {
            self.bad(what, text, format!("got {:?} expected {:?}", got, exp));
        }
    }
}

fn ts(x: usize) -> TextSize {
    TextSize::from(x as u32)
}

fn check_text(m: &mut Mon, text: &str, do_locators: bool) {
    let lines = model_lines(text);
    let n = lines.len();
    let index = LineIndex::from_source_text(text);
    let sc = SourceCode::new(text, &index);
    let starts: Vec<u32> = index.line_starts().iter().map(|x| u32::from(*x)).collect();
    let exp_starts: Vec<u32> = lines.iter().map(|l| l.0 as u32).collect();
    m.chk("line_starts", text, starts, exp_starts.clone());
    m.chk("LineIndex as a slice", text, (index.len(), index.first().map(|x| u32::from(*x)), index.iter().map(|x| u32::from(*x)).collect::<Vec<u32>>()), (n, Some(0), exp_starts.clone()));
    m.chk("LineIndex Debug", text, format!("{:?}", index), format!("{:?}", exp_starts));
    m.chk("line_count", text, sc.line_count(), n);
    let bounds: Vec<usize> = (0..=text.len()).filter(|i| text.is_char_boundary(*i)).collect();
    for &o in &bounds {
        let exp = model_location(text, &lines, o);
        let loc = sc.source_location(ts(o));
        m.chk("source_location", text, (o, loc.row.get(), loc.column.get()), (o, exp.0, exp.1));
        m.chk("line_index", text, (o, sc.line_index(ts(o)).get()), (o, exp.0));
        let loc2 = index.source_location(ts(o), text);
        m.chk("LineIndex::source_location", text, (o, loc2.row.get(), loc2.column.get()), (o, exp.0, exp.1));
        m.chk("up_to+after", text, format!("{}{}", sc.up_to(ts(o)), sc.after(ts(o))), text.to_string());
    }
    let mut concat = String::new();
    for (i, l) in lines.iter().enumerate() {
        let li = OneIndexed::from_zero_indexed(i as u32);
        m.chk("line_start", text, (i, u32::from(sc.line_start(li))), (i, l.0 as u32));
        m.chk("line_end", text, (i, u32::from(sc.line_end(li))), (i, l.2 as u32));
        let r = sc.line_range(li);
        m.chk("line_range", text, (i, u32::from(r.start()), u32::from(r.end())), (i, l.0 as u32, l.2 as u32));
        m.chk("line_text", text, (i, sc.line_text(li)), (i, &text[l.0..l.2]));
        m.chk("slice", text, (i, sc.slice(TextRange::new(ts(l.0), ts(l.2)))), (i, &text[l.0..l.2]));
        concat.push_str(sc.line_text(li));
    }
    m.chk("lines_partition", text, concat, text.to_string());
    m.chk("text", text, sc.text(), text);

    // universal newline iteration: the model lines without a final empty line
    let mut ulines: Vec<(usize, usize, usize)> = lines.clone();
    if ulines.last().map(|l| l.0 == l.2) == Some(true) {
        ulines.pop();
    }
    for base in [0usize, 7] {
        let mk = || UniversalNewlineIterator::with_offset(text, ts(base));
        let fwd: Vec<(u32, String)> = mk().map(|l| (u32::from(l.start()), l.as_full_str().to_string())).collect();
        let exp: Vec<(u32, String)> = ulines.iter().map(|l| ((l.0 + base) as u32, text[l.0..l.2].to_string())).collect();
        m.chk("newlines.forward", text, fwd, exp.clone());
        m.chk("newlines.last", text, mk().last().map(|l| (u32::from(l.start()), l.as_full_str().to_string())), exp.last().cloned());
        for (l, e) in mk().zip(ulines.iter()) {
            let body = &text[e.0..e.1];
            m.chk("Line == &str", text, (l == body, body == l, &*l == body, l.as_str() == body), (true, true, true, true));
            m.chk("Line::new", text, (Line::new(l.as_full_str(), l.start()).as_str(), u32::from(Line::new(l.as_full_str(), l.start()).full_end())), (body, (e.2 + base) as u32));
        }
        let mut bwd: Vec<(u32, String)> = mk().rev().map(|l| (u32::from(l.start()), l.as_full_str().to_string())).collect();
        bwd.reverse();
        m.chk("newlines.backward", text, bwd, exp.clone());
        let k = ulines.len();
        if k <= 6 {
            for pat in 0u32..(1 << k) {
                let mut it = mk();
                let mut front = Vec::new();
                let mut back = Vec::new();
                for j in 0..k {
                    let item = if pat >> j & 1 == 0 { it.next() } else { it.next_back() };
                    let item = item.map(|l| (u32::from(l.start()), l.as_full_str().to_string()));
                    if pat >> j & 1 == 0 {
                        front.push(item);
                    } else {
                        back.push(item);
                    }
                }
                let end1 = it.next().is_none();
                let end2 = it.next_back().is_none();
                back.reverse();
                front.extend(back);
                let got: Vec<(u32, String)> = front.into_iter().flatten().collect();
                m.chk("newlines.alternating", text, (pat, got, end1, end2), (pat, exp.clone(), true, true));
            }
        }
    }
    if text.is_empty() || true {
        let it = if text.len() % 2 == 0 { text.universal_newlines() } else { UniversalNewlineIterator::from(text) };
        for (l, e) in it.zip(ulines.iter()) {
            m.chk("Line.start", text, u32::from(l.start()), e.0 as u32);
            m.chk("Line.end", text, u32::from(l.end()), e.1 as u32);
            m.chk("Line.full_end", text, u32::from(l.full_end()), e.2 as u32);
            m.chk("Line.as_str", text, l.as_str(), &text[e.0..e.1]);
            m.chk("Line.deref", text, &*l, &text[e.0..e.1]);
            m.chk("Line.as_full_str", text, l.as_full_str(), &text[e.0..e.2]);
            m.chk("Line.range", text, l.range(), TextRange::new(ts(e.0), ts(e.1)));
            m.chk("Line.full_range", text, l.full_range(), TextRange::new(ts(e.0), ts(e.2)));
            m.chk("Line.full_text_len", text, u32::from(l.full_text_len()), (e.2 - e.0) as u32);
        }
    }
    // trailing-newline variant
    let mut tl: Vec<(u32, String)> = ulines.iter().map(|l| (l.0 as u32, text[l.0..l.2].to_string())).collect();
    if text.ends_with(['\r', '\n']) {
        tl.push((text.len() as u32, String::new()));
    }
    let got: Vec<(u32, String)> = NewlineWithTrailingNewline::from(text)
        .map(|l| (u32::from(l.start()), l.as_full_str().to_string()))
        .collect();
    m.chk("trailing_newline_iter", text, got, tl.clone());
    for base in [0u32, 7, 1000] {
        let got: Vec<(u32, String)> = NewlineWithTrailingNewline::with_offset(text, TextSize::from(base))
            .map(|l| (u32::from(l.start()), l.as_full_str().to_string()))
            .collect();
        let exp: Vec<(u32, String)> = tl.iter().map(|(o, s)| (o + base, s.clone())).collect();
        m.chk("trailing_newline_iter.with_offset", text, (base, got), (base, exp));
    }
    // find_newline
    let exp = if lines.len() > 1 {
        let l = lines[0];
        Some((l.1, match &text[l.1..l.2] { "\n" => LineEnding::Lf, "\r" => LineEnding::Cr, _ => LineEnding::CrLf }))
    } else {
        None
    };
    m.chk("find_newline", text, find_newline(text), exp);

    if do_locators {
        // both locators on every non-decreasing pair of offsets
        let mut rl = RandomLocator::new(text);
        for (i, &o1) in bounds.iter().enumerate() {
            let e1 = model_location(text, &lines, o1);
            let r = rl.locate(ts(o1));
            m.chk("RandomLocator.locate", text, (o1, r.row.get(), r.column.get()), (o1, e1.0, e1.1));
            for &o2 in &bounds[i..] {
                let e2 = model_location(text, &lines, o2);
                let txt = text.to_string();
                let res = guard(move || {
                    let mut ll = LinearLocator::new(&txt);
                    let a = ll.locate(ts(o1));
                    let b = ll.locate(ts(o2));
                    (a.row.get(), a.column.get(), b.row.get(), b.column.get())
                });
                m.queries += 1;
                match res {
                    Ok(g) => {
                        if g != (e1.0, e1.1, e2.0, e2.1) {
                            m.bad("LinearLocator.locate", text, format!("offsets {} {} got {:?} expected {:?}", o1, o2, g, (e1, e2)));
                        }
                    }
                    Err(p) => m.bad("LinearLocator.panic", text, format!("offsets {} {} {}", o1, o2, p)),
                }
            }
        }
    }
}

const ALPHA: [&str; 5] = ["\n", "\r", "a", "\u{e9}", "\u{1d11e}"];

fn nth_text(mut idx: u64, len: usize, bom: bool) -> String {
    let mut s = String::new();
    if bom {
        s.push('\u{feff}');
    }
    for _ in 0..len {
        s.push_str(ALPHA[(idx % 5) as usize]);
        idx /= 5;
    }
    s
}

fn set_of(r: TextRange) -> Vec<u32> {
    (u32::from(r.start())..u32::from(r.end())).collect()
}

fn check_ranges(m: &mut Mon, lim: u32, seed: u64) {
    let t = "";
    let mk = |a: u32, b: u32| TextRange::new(TextSize::from(a), TextSize::from(b));
    let mut all = Vec::new();
    for a in 0..=lim {
        for b in a..=lim {
            all.push((a, b));
        }
    }
    for &(a, b) in &all {
        let r = mk(a, b);
        m.chk("range.len", t, u32::from(r.len()), b - a);
        m.chk("range.is_empty", t, r.is_empty(), a == b);
        m.chk("range.at", t, TextRange::at(a.into(), (b - a).into()), r);
        // a range read through the standard traits: bounds, `contains` of RangeBounds, conversion to Range<usize>/<u32>
        m.chk("range.bounds", t, (r.start_bound(), r.end_bound()), (Bound::Included(&TextSize::from(a)), Bound::Excluded(&TextSize::from(b))));
        for o in 0..=lim + 1 {
            m.chk("RangeBounds::contains", t, (a, b, o, RangeBounds::contains(&r, &TextSize::from(o))), (a, b, o, a <= o && o < b));
        }
        m.chk("Range<usize>::from", t, std::ops::Range::<usize>::from(r), a as usize..b as usize);
        m.chk("Range<u32>::from", t, std::ops::Range::<u32>::from(r), a..b);
        m.chk("TextRange::from(Range)", t, TextRange::from(TextSize::from(a)..TextSize::from(b)), r);
        // operators by reference and in place
        let d = TextSize::from(b - a);
        let sz = TextSize::from(a);
        let mut r2 = r;
        r2 += d;
        m.chk("range += size", t, (r + d, r + &d, &r + d, r2), (mk(a + (b - a), b + (b - a)), mk(a + (b - a), b + (b - a)), mk(a + (b - a), b + (b - a)), mk(a + (b - a), b + (b - a))));
        let mut r3 = r;
        r3 -= sz;
        m.chk("range -= size", t, (r - sz, r - &sz, &r - sz, r3), (mk(0, b - a), mk(0, b - a), mk(0, b - a), mk(0, b - a)));
        let mut s2 = sz;
        s2 += d;
        let mut s3 = TextSize::from(b);
        s3 -= sz;
        m.chk("size ops by reference / in place", t, (sz + &d, &sz + d, &sz + &d, s2, TextSize::from(b) - &sz, s3), (TextSize::from(b), TextSize::from(b), TextSize::from(b), TextSize::from(b), d, d));
        m.chk("size sum", t, ([sz, d, d].iter().sum::<TextSize>(), [sz, d].into_iter().sum::<TextSize>()), (TextSize::from(a + 2 * (b - a)), TextSize::from(b)));
        m.chk("OneIndexed Display", t, format!("{}", OneIndexed::from_zero_indexed(a)), format!("{}", a + 1));
        m.chk("range.empty", t, TextRange::empty(a.into()), mk(a, a));
        m.chk("range.up_to", t, TextRange::up_to(b.into()), mk(0, b));
        for o in 0..=lim + 1 {
            m.chk("range.contains", t, (a, b, o, r.contains(o.into())), (a, b, o, set_of(r).contains(&o)));
            m.chk("range.contains_inclusive", t, (a, b, o, r.contains_inclusive(o.into())), (a, b, o, a <= o && o <= b));
            let c = r.cover_offset(o.into());
            m.chk("range.cover_offset", t, (a, b, o, c), (a, b, o, mk(a.min(o), b.max(o))));
            m.chk("range.checked_add", t, r.checked_add(o.into()), Some(mk(a + o, b + o)));
            m.chk("range + size", t, r + TextSize::from(o), mk(a + o, b + o));
            m.chk("range.checked_sub", t, r.checked_sub(o.into()), if o <= a { Some(mk(a - o, b - o)) } else { None });
            if o <= a {
                m.chk("range - size", t, r - TextSize::from(o), mk(a - o, b - o));
                m.chk("range.sub_start", t, r.sub_start(o.into()), mk(a - o, b));
            }
            if a + o <= b {
                m.chk("range.add_start", t, r.add_start(o.into()), mk(a + o, b));
                m.chk("range.sub_end", t, r.sub_end(o.into()), mk(a, b - o));
            }
            m.chk("range.add_end", t, r.add_end(o.into()), mk(a, b + o));
            // documented panics (in every build profile): an endpoint that would pass the other one
            if a + o > b {
                let g = guard(move || r.add_start(o.into()));
                m.queries += 1;
                if g.is_ok() {
                    m.bad("range.add_start past the end does not panic", t, format!("{} {} {} got {:?}", a, b, o, g.ok()));
                }
            }
            if o <= b && b - o < a {
                let g = guard(move || r.sub_end(o.into()));
                m.queries += 1;
                if g.is_ok() {
                    m.bad("range.sub_end before the start does not panic", t, format!("{} {} {} got {:?}", a, b, o, g.ok()));
                }
            }
            if o > a {
                let g = guard(move || r.sub_start(o.into()));
                m.queries += 1;
                if g.is_ok() {
                    m.bad("range.sub_start below zero does not panic", t, format!("{} {} {} got {:?}", a, b, o, g.ok()));
                }
            }
            if o < a {
                let g = guard(move || TextRange::new(a.into(), o.into()));
                m.queries += 1;
                if g.is_ok() {
                    m.bad("TextRange::new with end < start does not panic", t, format!("{} {} got {:?}", a, o, g.ok()));
                }
            }
        }
        for &(c, d) in &all {
            let s = mk(c, d);
            let key = (a, b, c, d);
            m.chk("range.contains_range", t, (key, r.contains_range(s)), (key, a <= c && d <= b));
            // as sets of offsets: a non-empty `s` is contained iff all its offsets are
            if c < d {
                m.chk("range.contains_range/set", t, (key, r.contains_range(s)), (key, set_of(s).iter().all(|x| set_of(r).contains(x))));
            }
            let inter: Vec<u32> = set_of(r).into_iter().filter(|x| set_of(s).contains(x)).collect();
            match r.intersect(s) {
                Some(i) => {
                    m.chk("range.intersect/set", t, (key, set_of(i)), (key, inter));
                    m.chk("range.intersect", t, (key, i), (key, mk(a.max(c), b.min(d))));
                }
                None => {
                    m.chk("range.intersect/none", t, (key, inter.is_empty() && (b < c || d < a)), (key, true));
                }
            }
            let cv = r.cover(s);
            m.chk("range.cover", t, (key, cv), (key, mk(a.min(c), b.max(d))));
            let exp = if b <= c { Ordering::Less } else if d <= a { Ordering::Greater } else { Ordering::Equal };
            m.chk("range.ordering", t, (key, r.ordering(s)), (key, exp));
        }
    }
    // one-indexed row/column numbers and line endings: plain integer models
    for v in [0u32, 1, 2, 7, 1000, u32::MAX - 2, u32::MAX - 1] {
        let o = OneIndexed::from_zero_indexed(v);
        m.chk("OneIndexed.get", t, (v, o.get()), (v, v + 1));
        m.chk("OneIndexed.to_usize", t, (v, o.to_usize()), (v, v as usize + 1));
        m.chk("OneIndexed.to_zero_indexed", t, (v, o.to_zero_indexed(), o.to_zero_indexed_usize()), (v, v, v as usize));
        m.chk("OneIndexed.new", t, (v, OneIndexed::new(v + 1)), (v, Some(o)));
        m.chk("OneIndexed.try_from_zero_indexed", t, (v, OneIndexed::try_from_zero_indexed(v as usize)), (v, Ok(o)));
        for d in [0u32, 1, 2, 5, u32::MAX] {
            m.chk("OneIndexed.saturating_add", t, (v, d, o.saturating_add(d).get()), (v, d, (v + 1).saturating_add(d)));
            m.chk("OneIndexed.saturating_sub", t, (v, d, o.saturating_sub(d).get()), (v, d, (v + 1).saturating_sub(d).max(1)));
        }
    }
    m.chk("OneIndexed.new(0)", t, OneIndexed::new(0), None);
    m.chk("OneIndexed.MIN/MAX", t, (OneIndexed::MIN.get(), OneIndexed::MAX.get()), (1, u32::MAX));
    m.chk("OneIndexed.try_from_zero_indexed/overflow", t, OneIndexed::try_from_zero_indexed(u32::MAX as usize + 1), Err(u32::MAX as usize + 1));
    for (le, txt) in [(LineEnding::Lf, "\n"), (LineEnding::Cr, "\r"), (LineEnding::CrLf, "\r\n")] {
        m.chk("LineEnding", t, (le.as_str(), le.len(), u32::from(le.text_len())), (txt, txt.len(), txt.len() as u32));
    }
    for v in [0u32, 1, 255, 65536, u32::MAX] {
        m.chk("TextSize.to_u32/to_usize", t, (TextSize::from(v).to_u32(), TextSize::from(v).to_usize()), (v, v as usize));
    }
    // slicing agrees with offsets
    let text = "a\u{e9}b\u{1d11e}c\n";
    for a in 0..=text.len() {
        for b in a..=text.len() {
            if text.is_char_boundary(a) && text.is_char_boundary(b) {
                m.chk("str[range]", text, &text[mk(a as u32, b as u32)], &text[a..b]);
                let mut owned = String::from(text);
                m.chk("String[range]", text, &owned[mk(a as u32, b as u32)], &text[a..b]);
                owned[mk(a as u32, b as u32)].make_ascii_uppercase();
                let mut exp = String::from(text);
                exp[a..b].make_ascii_uppercase();
                m.chk("String[range] (mutable)", text, owned.clone(), exp.clone());
                let st: &mut str = owned.as_mut_str();
                st[mk(a as u32, b as u32)].make_ascii_lowercase();
                exp[a..b].make_ascii_lowercase();
                m.chk("str[range] (mutable)", text, owned, exp);
                m.chk("TextSize::of", text, (TextSize::of(&text[a..b]), TextSize::of(&String::from(&text[a..b]))), (TextSize::from((b - a) as u32), TextSize::from((b - a) as u32)));
            }
        }
    }
    for c in ['a', '\u{e9}', '\u{20ac}', '\u{1d11e}', '\0', '\u{10ffff}'] {
        m.chk("TextSize::of(char)", t, (c, TextSize::of(c)), (c, TextSize::from(c.len_utf8() as u32)));
    }
    // near 2^32
    let mut rng = Rng::new(seed);
    let top = u32::MAX;
    for _ in 0..2000 {
        let a = top - rng.below(4) as u32;
        let b = a + rng.below((top - a) as usize + 1) as u32;
        let o = rng.below(6) as u32;
        let r = mk(a, b);
        let exp_add = if (b as u64) + (o as u64) <= top as u64 { Some(mk(a + o, b + o)) } else { None };
        // the checked operations must return None, never panic (overflow-checked build) or wrap (release build)
        match guard(move || (r.checked_add(o.into()), TextSize::from(b).checked_add(o.into()), TextSize::from(o).checked_sub(b.into()))) {
            Ok((ra, sa, ss)) => {
                m.chk("range.checked_add/edge", t, (a, b, o, ra), (a, b, o, exp_add));
                m.chk("size.checked_add/edge", t, sa, b.checked_add(o).map(TextSize::from));
                m.chk("size.checked_sub/edge", t, ss, o.checked_sub(b).map(TextSize::from));
            }
            Err(p) => {
                m.queries += 1;
                m.bad("checked operation panicked/edge", t, format!("{} {} {} {}", a, b, o, p));
            }
        }
        let lo2 = mk(rng.below(3) as u32, 3 + rng.below(3) as u32);
        let exp_sub = if o <= u32::from(lo2.start()) { Some(mk(u32::from(lo2.start()) - o, u32::from(lo2.end()) - o)) } else { None };
        match guard(move || lo2.checked_sub(o.into())) {
            Ok(g) => m.chk("range.checked_sub/edge", t, (lo2, o, g), (lo2, o, exp_sub)),
            Err(p) => {
                m.queries += 1;
                m.bad("checked operation panicked/edge", t, format!("{:?} {} {}", lo2, o, p));
            }
        }
        if (a as u64) + (o as u64) + 1 > top as u64 {
            let g = guard(move || TextRange::at(a.into(), (o + 1).into()));
            m.queries += 1;
            if g.is_ok() {
                m.bad("TextRange::at past 2^32 does not panic", t, format!("{} {} got {:?}", a, o + 1, g.ok()));
            }
        }
        // the unchecked operators must panic instead of wrapping
        let res = guard(move || r + TextSize::from(o));
        m.queries += 1;
        match (res, exp_add) {
            (Ok(g), Some(e)) if g == e => {}
            (Err(_), None) => {}
            (g, e) => m.bad("range + size/edge", t, format!("{} {} {} got {:?} expected {:?}", a, b, o, g.ok(), e)),
        }
        let lo = mk(rng.below(3) as u32, 3 + rng.below(3) as u32);
        let res = guard(move || lo - TextSize::from(o));
        let exp = if o <= u32::from(lo.start()) { Some(mk(u32::from(lo.start()) - o, u32::from(lo.end()) - o)) } else { None };
        m.queries += 1;
        match (res, exp) {
            (Ok(g), Some(e)) if g == e => {}
            (Err(_), None) => {}
            (g, e) => m.bad("range - size/edge", t, format!("{:?} {} got {:?} expected {:?}", lo, o, g.ok(), e)),
        }
    }
}

/// `pos exhaustive <len> <shard> <nshards> <loc:0|1>` | `pos random <seed> <count> <maxlen> <loc>` |
/// `pos ranges <lim> <seed>` | `pos text <loc>` (payload = one text)
pub fn op_pos(args: &[&str], payload: &[u8]) -> String {
    let mut m = Mon { mism: Vec::new(), queries: 0 };
    let mut texts = 0u64;
    let mut samples: Vec<String> = Vec::new();
    let num = |i: usize| -> u64 { args.get(i).and_then(|s| s.parse().ok()).unwrap_or(0) };
    match args.first().copied().unwrap_or("") {
        "exhaustive" => {
            let len = num(1) as usize;
            let shard = num(2);
            let nshards = num(3).max(1);
            let loc = num(4) == 1;
            let total = 5u64.pow(len as u32);
            for idx in 0..total {
                if idx % nshards != shard {
                    continue;
                }
                for bom in [false, true] {
                    let t = nth_text(idx, len, bom);
                    check_text(&mut m, &t, loc);
                    texts += 1;
                    if samples.len() < 3 && idx * 7 % 11 == 3 {
                        samples.push(t);
                    }
                }
            }
        }
        "random" => {
            let mut rng = Rng::new(num(1));
            let count = num(2);
            let maxlen = num(3) as usize;
            let loc = num(4) == 1;
            let extra = ["\n", "\r", "\r\n", "a", "b", " ", "\t", "\u{e9}", "\u{1d11e}", "\u{2028}", "\u{85}", "\u{c}", "\u{b}", "\u{feff}", "\u{3042}"];
            for _ in 0..count {
                let n = rng.below(maxlen + 1);
                let mut t = String::new();
                if rng.below(5) == 0 {
                    t.push('\u{feff}');
                }
                for _ in 0..n {
                    let k = if rng.below(3) == 0 { rng.below(3) } else { rng.below(extra.len()) };
                    t.push_str(extra[k]);
                }
                check_text(&mut m, &t, loc);
                texts += 1;
                if samples.len() < 3 {
                    samples.push(t);
                }
            }
        }
        "ranges" => {
            check_ranges(&mut m, num(1) as u32, num(2));
            texts = 1;
        }
        "text" => {
            if let Ok(t) = std::str::from_utf8(payload) {
                check_text(&mut m, t, num(1) == 1);
                texts = 1;
            }
        }
        _ => {}
    }
    let total_mism = m.mism.len();
    let shown: Vec<String> = m.mism.into_iter().filter(|s| !s.is_empty()).collect();
    let ss: Vec<String> = samples.iter().map(|s| jstr(s)).collect();
    format!(
        "{{\"texts\":{},\"queries\":{},\"mismatches\":{},\"shown\":[{}],\"samples\":[{}]}}",
        texts,
        m.queries,
        total_mism,
        shown.join(","),
        ss.join(",")
    )
}
