#!/usr/bin/env python3
"""Dev helper for seeded changes.

  confirm <name> <worktree> <out-dir> <demo-dest-relpath> -- <demo command...>
      in the scratch worktree (change applied, uncommitted): existing suite passes with the change, the demo fails
      with it and passes without it; then stores patch.diff / demo / meta.json under /verif/seeded/<name>/.
  run <name> <check-id>... [--seed N] [--tier quick]
      applies /verif/seeded/<name>/patch.diff to /repo, runs the checks, records the outcome in meta.json, and
      restores /repo (git checkout -- .) whatever happens.
"""
import json
import os
import shutil
import subprocess
import sys
import time

SEEDED = "/verif/seeded"


def sh(cmd, cwd=None, timeout=3600):
    p = subprocess.run(cmd, cwd=cwd, shell=isinstance(cmd, str), capture_output=True, text=True, timeout=timeout)
    return p.returncode, (p.stdout + p.stderr)


def confirm(name, wt, out, dest, demo_cmd, prop, needs):
    """Independent confirmation in a FRESH scratch worktree from the author's patch.diff (no git stash: the stash is
    shared between worktrees of one repository)."""
    cf = "/tmp/cf_" + name
    sh("git -C /repo worktree remove --force %s" % cf)
    rc, o = sh("git -C /repo worktree add --detach %s HEAD" % cf)
    if rc:
        print(o)
        return 2
    env = "CARGO_TARGET_DIR=/tmp/cf_target "
    try:
        patch = os.path.join(out, "patch.diff")
        rc, o = sh("git apply %s" % patch, cwd=cf)
        if rc:
            print("patch does not apply", o)
            return 1
        rc, o = sh(env + "cargo test --workspace --no-fail-fast --offline 2>&1 | grep -E '^test result|FAILED|panicked|^error' ", cwd=cf)
        failed = [l for l in o.splitlines() if "FAILED" in l or l.startswith("error") or ("test result" in l and " 0 failed" not in l)]
        nres = len([l for l in o.splitlines() if l.startswith("test result")])
        print("existing suite with change:", "PASS" if not failed and nres >= 6 else "FAIL", nres, "result lines")
        if failed or nres < 6:
            print("\n".join(failed[:10]))
            return 1
        demo_src = sorted(f for f in os.listdir(out) if f.startswith("demo"))
        os.makedirs(os.path.dirname(os.path.join(cf, dest)), exist_ok=True)
        shutil.copyfile(os.path.join(out, demo_src[0]), os.path.join(cf, dest))
        rc1, o1 = sh(env + demo_cmd, cwd=cf)
        print("demo with change: rc=%d" % rc1, [l for l in o1.splitlines() if "test result" in l or "FAILED" in l][:4])
        sh("git apply -R %s" % patch, cwd=cf)
        rc2, o2 = sh(env + demo_cmd, cwd=cf)
        print("demo without change: rc=%d" % rc2, [l for l in o2.splitlines() if "test result" in l][:3])
        if rc1 == 0 or rc2 != 0:
            print("NOT CONFIRMED")
            print(o2[-800:] if rc2 else "")
            return 1
    finally:
        sh("git -C /repo worktree remove --force %s" % cf)
    d = os.path.join(SEEDED, name)
    os.makedirs(d, exist_ok=True)
    shutil.copyfile(os.path.join(out, "patch.diff"), os.path.join(d, "patch.diff"))
    for f in os.listdir(out):
        if f.startswith("demo") or f == "README.md":
            shutil.copyfile(os.path.join(out, f), os.path.join(d, f if f != "README.md" else "AUTHOR_NOTES.md"))
    old_meta = {}
    if os.path.exists(os.path.join(d, "meta.json")):
        old_meta = json.load(open(os.path.join(d, "meta.json")))
    meta = {"name": name, "breaks_property": prop, "needs_to_manifest": needs,
            "confirmed": {"existing_suite_passes_with_change": True, "demo_fails_with_change": True, "demo_passes_without_change": True,
                          "demo_destination": dest, "demo_command": demo_cmd,
                          "suite_command": "cargo test --workspace --no-fail-fast --offline",
                          "confirmed_in": "fresh scratch git worktree of /repo under /tmp (patch applied with git apply, reverted with git apply -R; worktree removed afterwards)"},
            "checks_run": old_meta.get("checks_run", {}) if old_meta.get("patch_sha") == _sha(patch) else {}, "patch_sha": _sha(patch)}
    json.dump(meta, open(os.path.join(d, "meta.json"), "w"), indent=1)
    print("stored", d)
    return 0


def _sha(path):
    import hashlib
    return hashlib.sha1(open(path, "rb").read()).hexdigest()[:12]


def run_copy(name, checks, seed, tier):
    """Like run(), but against a scratch worktree of /repo with the patch applied (VERIF_REPO), leaving /repo untouched;
    several of these can run at the same time."""
    d = os.path.join(SEEDED, name)
    meta = json.load(open(os.path.join(d, "meta.json")))
    wt = "/tmp/sr_" + name
    sh("git -C /repo worktree remove --force %s" % wt)
    rc, o = sh("git -C /repo worktree add --detach %s HEAD" % wt)
    if rc:
        print(o)
        return 2
    try:
        rc, o = sh("git apply %s" % os.path.join(d, "patch.diff"), cwd=wt)
        if rc:
            print("patch does not apply:", o)
            return 2
        for c in checks:
            t0 = time.time()
            env = dict(os.environ, VERIF_SEED=str(seed), VERIF_REPO=wt)
            p = subprocess.run(["python3", "-m", "mon", "check", c, "--tier", tier], cwd="/verif", capture_output=True, text=True, env=env)
            lines = [l for l in p.stdout.splitlines() if l.startswith("  class=")]
            classes = sorted({l.split("class=")[1].split(" ")[0] for l in lines})
            verdict = {0: "missed (exit 0)", 1: "CAUGHT", 3: "inconclusive"}.get(p.returncode, "rc=%d" % p.returncode)
            if p.returncode == 1 and "VIOLATION property=" not in p.stdout:
                verdict = "rc=1 without a VIOLATION line (broken check?)"
            meta["checks_run"]["%s/%s/seed%s" % (c, tier, seed)] = {"verdict": verdict, "classes": classes[:6], "wall_s": round(time.time() - t0, 1), "via": "scratch worktree (VERIF_REPO)"}
            print(c, verdict, classes[:4], "%.0fs" % (time.time() - t0))
            if p.returncode not in (0, 1):
                print(p.stdout[-600:], p.stderr[-600:])
    finally:
        sh("git -C /repo worktree remove --force %s" % wt)
        import hashlib
        shutil.rmtree(os.path.join("/verif/build", "alt-" + hashlib.sha1(wt.encode()).hexdigest()[:10]), ignore_errors=True)
    json.dump(meta, open(os.path.join(d, "meta.json"), "w"), indent=1)
    return 0


def run(name, checks, seed, tier):
    d = os.path.join(SEEDED, name)
    meta = json.load(open(os.path.join(d, "meta.json")))
    rc, o = sh("git -C /repo status --porcelain")
    if o.strip():
        print("/repo is not clean:", o)
        return 2
    rc, o = sh("git -C /repo apply %s" % os.path.join(d, "patch.diff"))
    if rc:
        print("patch does not apply:", o)
        return 2
    try:
        for c in checks:
            t0 = time.time()
            env = dict(os.environ, VERIF_SEED=str(seed))
            p = subprocess.run(["python3", "-m", "mon", "check", c, "--tier", tier], cwd="/verif", capture_output=True, text=True, env=env)
            lines = [l for l in p.stdout.splitlines() if l.startswith("VIOLATION") or l.startswith("  class=")]
            classes = sorted({l.split("class=")[1].split(" ")[0] for l in lines if "class=" in l})
            verdict = {0: "missed (exit 0)", 1: "CAUGHT", 3: "inconclusive"}.get(p.returncode, "rc=%d" % p.returncode)
            meta["checks_run"]["%s/%s/seed%s" % (c, tier, seed)] = {"verdict": verdict, "classes": classes[:6], "wall_s": round(time.time() - t0, 1)}
            print(c, verdict, classes[:4], "%.0fs" % (time.time() - t0))
            if p.returncode not in (0, 1):
                print(p.stdout[-600:], p.stderr[-600:])
    finally:
        sh("git -C /repo checkout -- .")
        rc, o = sh("git -C /repo status --porcelain")
        print("repo restored:", "clean" if not o.strip() else o)
    json.dump(meta, open(os.path.join(d, "meta.json"), "w"), indent=1)
    return 0


def table():
    rows = []
    for name in sorted(os.listdir(SEEDED)):
        mp = os.path.join(SEEDED, name, "meta.json")
        if not os.path.exists(mp):
            continue
        m = json.load(open(mp))
        caught = sorted({k.split("/")[0] for k, v in m["checks_run"].items() if v["verdict"] == "CAUGHT"})
        missed = sorted({k.split("/")[0] for k, v in m["checks_run"].items() if v["verdict"].startswith("missed")} - set(caught))
        rows.append("| `%s` | %s | %s | %s | %s |" % (name, m["breaks_property"], m["needs_to_manifest"], ", ".join(caught) or "—", ", ".join(missed) or "—"))
    out = ["# Seeded changes", "",
           "Each directory holds a change to RustPython/Parser written by a fresh sub-agent that was given only the text of one property and a scratch worktree "
           "(nothing from /verif): `patch.diff`, the author's demonstration (`demo.*`, `AUTHOR_NOTES.md`) and `meta.json` (what it breaks, what it needs in order to "
           "manifest, how it was confirmed, which checks were run against it with which verdict). Every change compiles, passes the repository's existing test suite, "
           "fails its demonstration with the change and passes it without — confirmed independently in a fresh scratch worktree (`tools_seeded.py confirm`). "
           "None of them is ever committed to /repo; `tools_seeded.py run <name> <checks>` applies one, runs the checks and restores /repo.", "",
           "| change | breaks | needs | caught by (quick tier) | run but silent |", "|---|---|---|---|---|"] + rows + [""]
    open(os.path.join(SEEDED, "README.md"), "w").write("\n".join(out))
    print("\n".join(rows))


if __name__ == "__main__":
    a = sys.argv[1:]
    if a[0] == "table":
        table()
        sys.exit(0)
    if a[0] == "confirm":
        i = a.index("--")
        name, wt, out, dest = a[1:5]
        prop = os.environ.get("PROP", name.split("-")[0])
        sys.exit(confirm(name, wt, out, dest, " ".join(a[i + 1:]), prop, os.environ.get("NEEDS", "")))
    if a[0] == "run":
        seed = int(a[a.index("--seed") + 1]) if "--seed" in a else 0
        tier = a[a.index("--tier") + 1] if "--tier" in a else "quick"
        checks = [x for x in a[2:] if x.startswith("C") and len(x) == 3]
        sys.exit((run_copy if "--copy" in a else run)(a[1], checks, seed, tier))
