#!/usr/bin/env python3
"""Dev helper: which source of RustPython/Parser do the registered workloads actually execute?

  run [--tier quick] [--seed N] [--jobs 3] [C01 C02 ...]
      runs the checks with VERIF_COVERAGE=1: the harness variants are rebuilt with -Cinstrument-coverage (nightly, so
      that the sysroot llvm tools read the profiles) under build/cov, and every harness process that exits normally
      leaves a profile in build/cov/prof. Evidence and replay files of such a run go to build/cov, never to /verif/evidence.
  report
      merges the profiles and writes coverage/summary.json and coverage/README.md: per source file of /repo the
      executed lines / regions / functions, and the functions that no workload ever entered.

A monitor decides nothing about code its workload never drives; this is how that set is known rather than guessed.
"""
import glob
import json
import os
import subprocess
import sys
import time
from concurrent.futures import ThreadPoolExecutor

ROOT = os.path.dirname(os.path.abspath(__file__))
COV = os.path.join(ROOT, "build", "cov")
OUT = os.path.join(ROOT, "coverage")
BIN = os.path.expanduser("~/.rustup/toolchains/nightly-x86_64-unknown-linux-gnu/lib/rustlib/x86_64-unknown-linux-gnu/bin")
ALL = ["C%02d" % i for i in range(1, 21)]


def run(checks, tier, seed, jobs):
    os.makedirs(COV, exist_ok=True)

    def one(c):
        t0 = time.time()
        env = dict(os.environ, VERIF_COVERAGE="1", VERIF_SEED=str(seed))
        p = subprocess.run(["python3", "-m", "mon", "check", c, "--tier", tier], cwd=ROOT, env=env, capture_output=True, text=True)
        last = (p.stdout.strip().split("\n") or [""])[-1]
        print("rc=%d %s %.0fs %s" % (p.returncode, c, time.time() - t0, last[:160]), flush=True)
        return c, p.returncode

    with ThreadPoolExecutor(max_workers=jobs) as ex:
        res = list(ex.map(one, checks))
    json.dump({"tier": tier, "seed": seed, "checks": dict(res)}, open(os.path.join(COV, "last_run.json"), "w"))


def report():
    raws = glob.glob(os.path.join(COV, "prof", "*.profraw"))
    if not raws:
        sys.exit("no profiles under build/cov/prof: run first")
    prof = os.path.join(COV, "merged.profdata")
    lst = os.path.join(COV, "prof.list")
    open(lst, "w").write("\n".join(raws) + "\n")
    subprocess.run([os.path.join(BIN, "llvm-profdata"), "merge", "-sparse", "-f", lst, "-o", prof], check=True)
    objs = sorted(glob.glob(os.path.join(COV, "*", "*", "vh")))
    args = [objs[0]] + sum((["-object", o] for o in objs[1:]), [])
    ign = ["--ignore-filename-regex=(\\.cargo|/rustc/|/verif/|\\.rustup)"]
    p = subprocess.run([os.path.join(BIN, "llvm-cov"), "export", "-instr-profile=" + prof, "-format=text"] + ign + args,
                       capture_output=True, text=True, check=True)
    data = json.loads(p.stdout)["data"][0]
    files = {}
    for f in data["files"]:
        name = f["filename"]
        if not name.startswith("/repo/"):
            continue
        s = f["summary"]
        files[name[len("/repo/"):]] = {"lines": [s["lines"]["covered"], s["lines"]["count"]],
                                       "regions": [s["regions"]["covered"], s["regions"]["count"]],
                                       "functions": [s["functions"]["covered"], s["functions"]["count"]]}
    # functions never entered, by file (generic instantiations: a function counts as entered if any instantiation was)
    entered = {}
    for fn in data["functions"]:
        fl = [x for x in fn["filenames"] if x.startswith("/repo/")]
        if not fl:
            continue
        line = fn["regions"][0][0] if fn["regions"] else 0
        key = (fl[0][len("/repo/"):], line)
        entered[key] = max(entered.get(key, 0), fn["count"])
    never = {}
    for (fname, line), cnt in sorted(entered.items()):
        if cnt == 0:
            never.setdefault(fname, []).append(line)
    os.makedirs(OUT, exist_ok=True)
    last = json.load(open(os.path.join(COV, "last_run.json"))) if os.path.exists(os.path.join(COV, "last_run.json")) else {}
    json.dump({"run": last, "profiles_merged": len(raws), "binaries": [os.path.relpath(o, COV) for o in objs], "files": files,
               "functions_never_entered": never}, open(os.path.join(OUT, "summary.json"), "w"), indent=1, sort_keys=True)
    rows = ["| file | lines executed | regions | functions entered |", "|---|---|---|---|"]
    for name, s in sorted(files.items()):
        pct = lambda a: "%d / %d (%.0f%%)" % (a[0], a[1], 100.0 * a[0] / a[1] if a[1] else 100.0)
        rows.append("| `%s` | %s | %s | %s |" % (name, pct(s["lines"]), pct(s["regions"]), pct(s["functions"])))
    notes = open(os.path.join(OUT, "NOTES.md")).read() if os.path.exists(os.path.join(OUT, "NOTES.md")) else ""
    head = ["# What the workloads execute", "",
            "Source coverage of /repo under the registered checks (`tools_coverage.py run` then `report`; tier %s, seed %s; %d harness "
            "process profiles merged over %d instrumented harness binaries). A monitor says nothing about code its workload never drives, so this "
            "table, not the number of evaluations, is the statement of reach. Functions that were never entered are listed per file in "
            "`summary.json` (`functions_never_entered`: source line of the function's first region); what they are and why no check drives "
            "them is discussed in NOTES.md below." % (last.get("tier"), last.get("seed"), len(raws), len(objs)), ""]
    open(os.path.join(OUT, "README.md"), "w").write("\n".join(head + rows + ["", notes]))
    print("\n".join(rows))
    for fname, lines in never.items():
        if "python.rs" in fname or "/gen/" in fname:
            print("%s: %d functions never entered" % (fname, len(lines)))
        else:
            print("%s: never entered at lines %s" % (fname, lines))


if __name__ == "__main__":
    a = sys.argv[1:]
    if a and a[0] == "run":
        tier = a[a.index("--tier") + 1] if "--tier" in a else "quick"
        seed = int(a[a.index("--seed") + 1]) if "--seed" in a else 0
        jobs = int(a[a.index("--jobs") + 1]) if "--jobs" in a else 3
        checks = [x for x in a[1:] if x.startswith("C") and len(x) == 3] or ALL
        run(checks, tier, seed, jobs)
    elif a and a[0] == "report":
        report()
    else:
        sys.exit(__doc__)
