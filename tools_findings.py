#!/usr/bin/env python3
"""Regenerates known_findings.json from the table below (dev helper; the JSON file is the committed artefact and is
never written by a check)."""
import json

F = []


def known(prop, id, description, witness, status="known"):
    F.append({"property": prop, "id": id, "status": status, "description": description, "witness": witness})


# ---------------------------------------------------------------- tree deviations (observed by C01 and, where the
# deviation sits inside literals / f-strings, also by C06 / C07)
TREE = {
    "subscript-single-star-not-tuple": ("a single starred index `a[*b]` is a bare Starred, the reference wraps it in a one-element Tuple", "a[*b]"),
    "match-subject-trailing-comma-not-tuple": ("`match x,:` keeps the subject `x` instead of the one-element tuple `(x,)`", "match x,:\n case _: pass"),
    "annassign-parenthesised-name-simple": ("`(x): int` reports simple=1, the reference reports 0 for a parenthesised name", "(x): int = 1"),
    "identifier-not-nfkc-normalised": ("identifiers are not NFKC-normalised (`µ` stays U+00B5, the reference stores U+03BC)", "µ = 1"),
    "softkw-match-case-name-at-line-start-with-colon": ("a logical line that starts with `match`/`case` used as an ordinary name and contains a colon is rejected (soft-keyword heuristic)", "match[0]: int = 1"),
    "continuation-before-final-crlf-at-end-of-input-rejected": ("a text that ends with a backslash followed by CRLF (nothing after it) is rejected with Eof; the reference accepts exactly this ending (it rejects backslash+LF and backslash+CR at end of input)", "x = 1\\\r\n"),
    "softkw-type-alias-not-at-logical-line-start": ("a `type X = ...` statement after `;` or after a one-line compound header is rejected", "if x: type X = int"),
    "subscript-starred-index-operand-above-bitwise-or-rejected": ("a starred index whose operand is a boolean/comparison/conditional/lambda expression (`x[*a and b]`) is rejected; the reference accepts any expression there", "x[*a and b]"),
    "fstring-field-triple-quoted-string-rejected": ("a replacement field holding a triple-quoted string that contains the other quote character is rejected", "f\"{'''eric's'''}\""),
    "string-kind-u-for-uppercase-prefix": ("`U'...'` sets the kind marker 'u'; the reference only does so for a lower-case `u` prefix", "U''"),
    "string-kind-u-not-propagated-into-format-spec": ("the 'u' kind of `u'' f'{x:spec}'` is not put on the constants inside the format spec (the reference marks them too)", "u'' f'{x:a}'"),
    "fstring-concat-empty-literal-piece-kept": ("an empty plain literal concatenated with an f-string leaves an empty Constant piece the reference drops", "'' f'{x}'"),
    "fstring-nested-spec-selfdoc-empty-constant": ("`=` form inside a nested format spec yields an extra empty Constant", "f'{x:{y=}}'"),
}
for k, (d, w) in TREE.items():
    known("C01", k, d, w)
    if k.startswith(("string-kind", "fstring-")):
        known("C06", k, d, w)
        known("C07", k, d, w)
known("C07", "fstring-format-spec-escape-kept-verbatim", "escape sequences inside a format spec are kept verbatim (`f'{x:\\n}'` has the two-character spec backslash-n; the reference decodes it)", "f'{x:\\n}'")
known("C07", "fstring-field-bare-tuple-range-includes-braces", "an unparenthesised tuple in a replacement field gets a range that includes the field's opening brace and the character after the tuple (it equals the reference's extent, which has the same quirk, but is not the expression's own text)", "f'{a, b}'")
for k_ in ("fstring-crlf-shifts-inner-ranges", "genexp-sole-argument-excludes-call-parens", "namedexpr-ends-before-closing-parens-of-value", "fstring-concat-piece-own-token-range"):
    known("C07", k_, "(see C02) " + next(f["description"] for f in []) if False else "see the C02 finding of the same name; inside replacement fields it also breaks the own-text rule of C07", "")

for k_ in ("continuation-before-final-crlf-at-end-of-input-rejected", "match-subject-trailing-comma-not-tuple", "softkw-match-case-name-at-line-start-with-colon", "subscript-starred-index-operand-above-bitwise-or-rejected", "fstring-field-triple-quoted-string-rejected"):
    known("C08", k_, "layout-sensitive consequence of the C01 finding of the same name: " + TREE[k_][0], TREE[k_][1])

# ---------------------------------------------------------------- C02
known("C02", "argwithdefault-range-excludes-default", "the range of a parameter-with-default node ends before its default expression, so it does not enclose it (all-nodes-with-ranges)", "def f(a=1): pass")
known("C02", "fstring-concat-piece-own-token-range", "pieces of an implicitly concatenated f-string carry their own token's range; the reference gives every piece the whole literal's extent", "'a' f'{x}'")
known("C02", "genexp-sole-argument-excludes-call-parens", "a generator expression that is the sole call argument excludes the call's parentheses; the reference includes them", "f(x for x in y)")
known("C02", "compound-stmt-trailing-semicolon-excluded", "a compound statement (or handler) whose last body statement ends in `;` ends before the semicolon; the reference includes it", "if x: y;")
known("C02", "namedexpr-ends-before-closing-parens-of-value", "a walrus expression ends at the end of its value's inner text, before the closing parenthesis of a parenthesised value", "(x := (1))")
known("C02", "fstring-crlf-shifts-inner-ranges", "expressions inside an f-string literal that contains CRLF are shifted left by one byte per preceding CRLF (can fall off a character boundary)", "f'''\r\n{x}'''")
known("C02", "withitem-parenthesised-group-shares-one-range", "the items of a parenthesised `with (a, b):` without `as` all carry the range of the whole group (all-nodes-with-ranges)", "with (a, b): pass")
known("C02", "empty-arguments-range-not-empty", "an empty parameter list gets the range of `()` (def) or of the whole lambda instead of an empty range (all-nodes-with-ranges)", "lambda: 0")
known("C02", "match-subject-tuple-range-ignores-element-parens-and-trailing-comma", "an unparenthesised tuple subject of `match` spans from the first element's inner start to the last element's inner end (element parentheses and the trailing comma are left out)", "match (a), b,:\n case _: pass")

# ---------------------------------------------------------------- C03 / C09
for prop in ("C03", "C09"):
    known(prop, "eof-error-offset-not-translated-for-token-less-input", "an input without any token (empty, blank or comment-only) parsed with a start offset k > 0 reports its end-of-input error at offset 0 instead of inside [k, k+len] (the start-marker token carries a default range)", "parse_starts_at('', Mode::Expression, 400)")

# ---------------------------------------------------------------- repaired defects (status fixed: suppress nothing)
def fixed(prop, id, commit, what, witness):
    F.append({"property": prop, "id": id, "status": "fixed", "commit": commit,
              "description": what, "witness": witness,
              "line": "fixed: property=%s %s %s" % (prop, commit, what)})


fixed("C14", "unlisted:round-trip-changes-signature", "fbd63e9", "Arguments -> PythonArguments -> Arguments lost keyword-only parameters without defaults / moved defaults (into_arguments padded with the length of an empty vector)", "def f(*, d, e=1): pass")
fixed("C14", "unlisted:python-form-kwonly-not-ordered-as-documented", "fbd63e9", "to_/into_python_arguments did not list keyword-only parameters without defaults first", "def f(*, a=1, b): pass")
fixed("C19", "unlisted:panic", "f0d132d", "CFormatSpec::format_bytes underflowed `width - len` when the width is smaller than the data", "b'%2s' % b'hello'")
fixed("C17", "unlisted:to_string-not-round-tripping", "3a69894", "float::to_string(0.9999999999999999) rendered '1.0' (is_integer used an EPSILON comparison)", "0.9999999999999999")
fixed("C11", "unlisted:tree-differs-after-round-trip", "3a69894", "the float constant 0.9999999999999999 was unparsed as 1.0", "0.9999999999999999")
fixed("C12", "unlisted:optimizer-output-differs-from-reference-rewrite", "c23d8c7", "ConstantOptimizer folded store/del-context tuples such as `() = x` into a Constant", "() = x")
fixed("C06", "unlisted:rust-rejects-literal", "d96bbf3", "a float literal with a decimal point written directly against `else` (`0 if y<1.5else 2`) was rejected as an invalid decimal literal: after the fraction the lexer took any `e` as the start of an exponent", "0 if y<1.5else 2")
fixed("C01", "unlisted:rust-rejects", "3e4e00a", "a physical line holding only blanks and a line-continuation backslash, joined onto a blank or comment-only line, produced a stray Newline (and Indent/Dedent) token: rejected inside an indented block, 'unexpected indent' when it had blanks of its own at top level, and in expression mode after the expression", "if a:\n  x\n  \\\n\n  y\n")
fixed("C08", "unlisted:acceptance-changes-with-layout", "3e4e00a", "same defect seen by C08: inserting a backslash-only line in front of a blank line made an accepted program rejected", "if a:\n  x\n  \\\n\n  y\n")
fixed("C08", "unlisted:tree-changes-with-layout", "3e4e00a", "same defect, other face: a backslash-only line at another column than the block's, joined onto the statement's line, was measured on its own and moved the statement out of the block", "if a:\n  x\n\\\n  y\n")
fixed("C01", "unlisted:rust-rejects", "d96bbf3", "same defect seen by C01: `x = 0 if y<5.else 2` rejected", "x = 0 if y<5.else 2")
fixed("C18", "unlisted:string-precision", "5b84adc", "format_string truncated after padding and by bytes (wrong text; panic inside a multi-byte character)", "format('é', '1.1')")

fixed("C17", "unlisted:parse_bytes-differs-from-float()", "c3b3461", "parse_bytes did not strip a vertical tab (u8::is_ascii_whitespace excludes 0x0b) although float() and parse_str do", "b' 1\\x0b'")
fixed("C17", "unlisted:to_hex-differs", "f564311", "to_hex rendered subnormals as 0x0.<2*fraction>p-1023 instead of float.hex()'s 0x0.<fraction>p-1022, and from_hex did not take it back", "5e-324")
fixed("C17", "unlisted:format_general-differs", "c150721", "format_general(0, ...) produced exponent form instead of treating precision 0 as 1 like %g", "format_general(0, 1.0)")
fixed("C17", "unlisted:from_hex-rejects", "adf4382", "from_hex rejected surrounding whitespace that float.fromhex() ignores", "' 0x1p0 '")
known("C17", "from_hex-rejects-values-needing-rounding", "from_hex only accepts texts whose exact value is a double (hexf-parse); float.fromhex() rounds texts with more than 53 significant bits or subnormal / underflowing results", "0x1.00000000000008p0")

# ---------------------------------------------------------------- C18 (root causes; predicates in mon/checks/c18.py::classify)
known("C18", "grouping-with-exponent-general-percent-panics", "a ',' or '_' grouping option together with type e/E/g/G/%/n (or a float without type) panics in get_separator_interval", "format(1.5, ',e')")
known("C18", "grouping-applies-width-as-zero-padding", "with a grouping option the field width is filled with grouped zeros even when neither '0' nor '=' was requested (also for inf/nan)", "format(7, '12,d')")
known("C18", "grouping-no-type-float-exponent-form", "grouping is inserted into exponent-form text of a float without presentation type ('1e_+15')", "format(1e15, '_')")
known("C18", "grouping-zero-padding-width-accounting", "with grouping and '='/'0' alignment a non-zero fill is replaced by grouped zeros / width is accounted differently", "format(-255, '= 8_')")
known("C18", "z-option-unknown", "the 3.11 'z' (negative-zero coercion) option is not recognised", "format(-0.0, 'z.1f')")
known("C18", "string-spec-sign-alt-equals-align-not-rejected", "string formatting does not reject sign, space, '#', '=' alignment, '0' or grouping", "format('a', '+')")
known("C18", "string-zero-flag-padding-differs", "'0' width flag on a string pads on the left (Python pads strings on the right with '0')", "format('a', '05')")
known("C18", "bool-without-type-formatted-as-text-not-int", "a boolean with a non-empty specification without presentation type is rendered as 'True'/'False'; Python formats it as the integer 1/0 with all numeric options", "format(True, '5')")
known("C18", "char-conversion-validation-and-padding", "type 'c' accepts a precision/sign/'#', pads by bytes and does not range-check like Python", "format(97, '.2c')")
known("C18", "float-no-type-with-precision-or-alt", "a float without presentation type but with a precision or '#' takes a different branch ('1' instead of '1.0', '1e+16' instead of '1.e+16')", "format(1.0, '.2')")
known("C18", "leading-conversion-accepted-in-format-spec", "FormatSpec::parse accepts a leading '!x' conversion inside the specification text; Python's format() rejects it", "format(1, '!b')")
known("C18", "char-conversion-of-surrogate-code-point-is-an-error", "type 'c' with an integer in U+D800..U+DFFF returns CodeNotInRange: Python returns a lone surrogate, which a Rust String cannot hold (before 175e5de this panicked)", "format(0xD800, 'c')")
known("C18", "string-precision-above-i32-max-rejected", "FormatSpec::parse refuses any precision above i32::MAX (PrecisionTooBig); for text the reference accepts precisions up to the platform's ssize_t and simply truncates nothing", "format('abc', '.2147483648')")
known("C18", "float-no-type-shortest-repr-tie-broken-differently", "a float without type and precision is rendered with Rust's shortest round-trip digits; where two equally short digit strings round-trip, Python's repr picks the one nearer the exact value and the crate may pick the other", "format(915724668195213.2, '')")
fixed("C18", "unlisted:differs-from-python-format", "c9de06d", "the '%' type printed 'inf.%' (with '#') / padded differently when value*100 overflows to infinity: the inf/nan test was made before the multiplication", "format(2e307, '#.0%')")
fixed("C18", "unlisted:panic", "175e5de", "FormatSpec::format_int with type 'c' panicked (char::from_u32(..).unwrap()) for integers in the surrogate range U+D800..U+DFFF", "format(0xD800, 'c')")

# ---------------------------------------------------------------- C19
known("C19", "percent-b-accepted-in-text-template", "the specifier parser is shared between text and bytes templates, so '%b' is accepted in a text template (Python: unsupported format character 'b')", "'%b' % 1")
fixed("C19", "unlisted:formatted-text-differs", "78455d7", "format_bytes ignored a bare '.' precision (b'%.s' % b'abc' gave b'abc' instead of b'')", "b'%.s' % b'abc'")

# ---------------------------------------------------------------- C20
known("C20", "index-bracket-not-scanned-as-opaque-unit", "inside a replacement field Python scans `[`...`]` as an opaque unit (so `!`, `:`, braces inside belong to the field name and a missing `]` is an error); this crate looks for `!` / `:` / braces first", "'{[}'")
known("C20", "brace-inside-field-name-accepted", "a `{` inside a field name is accepted (Python: unexpected '{' in field name)", "'{]{}}'")
known("C20", "conversion-character-brace-or-colon-handled-differently", "Python's template parser takes any single character after `!` as the conversion (also `{`, `}`, `:`); this crate rejects those", "'{!}}'")

known("C09", "mod-range-starts-at-zero-with-start-offset", "under all-nodes-with-ranges the Mod* node's range starts at 0 instead of the start offset (the start-marker token carries a default range)", "parse_starts_at('x', Mode::Module, 400)")

# ---------------------------------------------------------------- C11
known("C11", "fstring-unparse-escaped-quote-inside-field", "an f-string whose field holds a string of the literal's own quote kind (or a '=' form echoing one) is rendered with backslash-escaped quotes inside the field, which does not parse", "f\"{'a'} \\\"\"")
known("C11", "fstring-unparse-doubles-backslashes", "constants inside an f-string (strings in fields, format specs) that contain escapes come back with doubled backslashes", "f'{\"x\\ny\"}'")
known("C11", "fstring-concat-pieces-normalised-by-unparse", "implicitly concatenated f-strings come back with adjacent literal pieces merged, empty pieces dropped and the `u` kind marker lost (tree not identical, text equal)", "u'a' f'{x}'")
fixed("C11", "unlisted:rendering-rejected", "8ec82f4", "a dict-unpacking operand below bitwise-or precedence was rendered without parentheses (`{**a or b}`)", "{**(a or b)}")

# ---------------------------------------------------------------- C12
known("C12", "visitor-does-not-descend-into-product-nodes", "the default Visitor has empty generic_visit bodies for the product node types (arguments, arg, keyword, alias, withitem, match_case, comprehension), so every statement/expression/pattern beneath them is never reached (generator emits empty bodies for products; a repair means changing ast/asdl_rs.py incl. its boxing rules and regenerating)", "f(k=x)")

# ---------------------------------------------------------------- C13
known("C13", "linear-locator-class-keyword-before-base", "LinearLocator visits class bases before keywords; when a keyword precedes a (starred) base in the source its cursor goes backwards: self-check panic with debug assertions, wrong or panicking locations afterwards without", "class A(x=1, *b): pass")
known("C13", "linear-locator-concatenated-fstring-pieces", "the two locators disagree on the pieces of implicitly concatenated f-strings (linear gives every piece the whole literal's location, indexed uses each piece's own token range)", "'a' f'{b}'")
known("C13", "linear-locator-offset-before-bom-end-panics", "LinearLocator::locate of an offset before the end of a leading BOM (e.g. an error at offset 0 of a BOM file) panics; RandomLocator answers (1, 1)", "LinearLocator::new('\\u{feff}').locate(0)")
known("C13", "linear-locator-offset-inside-crlf-from-shifted-fstring-range", "an expression range inside a CRLF-containing f-string is shifted (C02 finding) and can start between CR and LF; the linear locator then counts that line break twice and is one line ahead for the rest of the file, the indexed locator is not", "f\'\'\'\\r\\n{x}\'\'\'")
known("C13", "linear-locator-parameter-default-outside-its-range", "under all-nodes-with-ranges a parameter-with-default node ends before its default (C02 finding), so the linear locator's cursor goes backwards", "def f(a=1): pass")
known("C13", "linear-locator-shared-withitem-range", "under all-nodes-with-ranges the items of `with (a, b):` share one range (C02 finding); the linear locator's cursor goes backwards", "with (a, b): pass")
known("C13", "linear-locator-empty-lambda-arguments-range", "under all-nodes-with-ranges the empty parameter list of `lambda: 0` has the lambda's range (C02 finding); the linear locator's cursor goes backwards", "lambda: 0")
known("C13", "linear-locator-bom-module-range-starts-at-zero", "under all-nodes-with-ranges the Mod* node starts at offset 0, before the end of a leading BOM; the linear locator panics", "'\\u{feff}x = 1'")

# ---------------------------------------------------------------- C04
known("C04", "bare-star-directly-before-kwargs-accepted", "`def f(*, **k)` / `lambda a, *, **k: 0` (a bare * followed only by **kwargs) is accepted; Python: named arguments must follow bare *", "def f(*, **k): pass")
known("C04", "error-inside-fstring-field-located-at-field-start", "a rule violation inside an f-string replacement field is reported (wrapped in FStringError(InvalidExpression(..))) at the start of the field's expression instead of inside the offending construct", "f'{(lambda x, x: x)(1)}'")
known("C04", "lexical-error-on-soft-keyword-line-reported-as-unexpected-name", "a lexical error on a logical line that starts with match/case/type: the soft-keyword look-ahead stops at the error, the keyword is demoted to a name and the parser reports an unexpected token earlier on the line instead of the lexical error", "match x:\n    case 1 $: pass")

known("C03", "string-error-offset-shifted-left-per-crlf-inside-literal", "errors raised while decoding a (triple-quoted) literal that contains CRLF are located one byte too far left per preceding CRLF (the string parser works on the value with CRLF folded to LF); the offset can fall inside a multi-byte character", "rb'''a\r\n\U0001d11e'''")

# further per-property tables are appended by findings_*.py fragments (one per check family)
if __name__ == "__main__":
    import os
    here = os.path.dirname(os.path.abspath(__file__))
    for extra in sorted(f for f in os.listdir(here) if f.startswith("findings_") and f.endswith(".py")):
        exec(open(os.path.join(here, extra)).read())
    with open("/verif/known_findings.json", "w") as f:
        json.dump({"findings": F}, f, indent=1, ensure_ascii=False)
    print("wrote %d findings" % len(F))
